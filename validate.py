#!/usr/bin/env python3-vt
import json, sys, glob, jsonschema
ms = json.load(open('/root/.vp/MANIFEST.schema.json')); es = json.load(open('/root/.vp/EVIDENCE.schema.json'))
m = json.load(open('/verif/MANIFEST.json')); jsonschema.validate(m, ms)
ids = [json.loads(l)['id'] for l in open('/verif/properties.jsonl')]
claimed = [c['property_id'] for c in m['checks']]; na = [n['property_id'] for n in m.get('not_applicable', [])]
assert sorted(claimed + na) == sorted(ids), (set(ids) - set(claimed) - set(na), set(claimed) & set(na))
for f in glob.glob('/verif/evidence/*.json'):
    e = json.load(open(f)); jsonschema.validate(e, es)
    print(f, e['tier'], e['coverage'].get('evaluations'), e['coverage'].get('distinct_nontrivial'), e['wall_s'], 'violations', e.get('violations'))
print('manifest ok; claimed', len(claimed), 'n/a', len(na))
