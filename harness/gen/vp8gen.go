package gen

import (
	"pgregory.net/rapid"

	"github.com/deepteams/webp/verifharness/ref/vp8hdr"
)

// VP8Prog is a generated VP8 key frame: chosen header fields written with a boolean encoder,
// followed by random bits for the per-macroblock modes, and token partitions of random bytes
// (every bit string is a legal boolean-coded stream, so the frame is syntactically valid).
type VP8Prog struct {
	W, H, Profile int
	XScale, YScale int // the 2-bit upscaling hints stored above the 14-bit dimensions (decoders ignore them)
	ColorSpace    int
	Clamp         int
	SegEnabled    bool
	SegUpdateMap  bool
	SegUpdateData bool
	SegAbs        bool
	SegQuant      [4]int
	SegFilter     [4]int
	SegQuantForce [4]bool
	SegProbs      [3]int // 255 = not sent
	FilterSimple  bool
	FilterLevel   int
	Sharpness     int
	LFDelta       bool
	LFDeltaUpdate bool
	RefDelta      [4]int
	ModeDelta     [4]int
	Log2Parts     int
	BaseQ         int
	QDelta        [5]int
	RefreshEnt    bool
	ProbaUpd      []ProbaUpd
	UseSkip       bool
	SkipProba     int
	ModeSeed      uint64 // random mode bits
	TokSeed       uint64 // random token bytes
	TokZeroRun    int    // 0..: percentage of zero bytes mixed into token data (makes sparse coefficients)
	TokOnesRun    int    // percentage of 0xff bytes mixed in (makes the largest coefficient categories)
}

type ProbaUpd struct{ I, J, K, L, V int }

func (p *VP8Prog) Summary() map[string]any {
	return map[string]any{"w": p.W, "h": p.H, "seg": p.SegEnabled, "segmap": p.SegUpdateMap, "segabs": p.SegAbs, "simple": p.FilterSimple,
		"level": p.FilterLevel, "sharp": p.Sharpness, "lfdelta": p.LFDelta && p.LFDeltaUpdate, "parts": 1 << p.Log2Parts, "q": p.BaseQ, "qd": p.QDelta,
		"skip": p.UseSkip, "nproba": len(p.ProbaUpd), "zero": p.TokZeroRun, "ones": p.TokOnesRun}
}

// DrawVP8 draws a frame program.
func DrawVP8(t *rapid.T, maxSide int) *VP8Prog {
	p := &VP8Prog{}
	side := func(n string) int {
		if rapid.IntRange(0, 3).Draw(t, n+"c") == 0 {
			return rapid.SampledFrom([]int{1, 2, 15, 16, 17, 31, 32, 33, 48}).Draw(t, n+"e")
		}
		return rapid.IntRange(1, maxSide).Draw(t, n)
	}
	p.W, p.H = side("w"), side("h")
	if rapid.IntRange(0, 59).Draw(t, "thin") == 0 {
		// rare: very wide or very tall frames (row buffers, span-wise SIMD glue, 2048-pixel staging)
		long := rapid.SampledFrom([]int{2046, 2047, 2048, 2049, 2050, 2063, 2064, 4095, 4096, 4097, 4112, 6145, 8193, 16383}).Draw(t, "thinLong")
		short := rapid.IntRange(1, 20).Draw(t, "thinShort")
		if rapid.IntRange(0, 3).Draw(t, "thinTall") == 0 {
			p.W, p.H = short, long
		} else {
			p.W, p.H = long, short
		}
	}
	if rapid.IntRange(0, 19).Draw(t, "scaled") == 0 {
		p.XScale, p.YScale = rapid.IntRange(0, 3).Draw(t, "xscale"), rapid.IntRange(0, 3).Draw(t, "yscale")
	}
	p.Profile = rapid.IntRange(0, 3).Draw(t, "profile")
	p.ColorSpace = 0
	p.Clamp = rapid.IntRange(0, 1).Draw(t, "clamp")
	p.SegEnabled = rapid.Bool().Draw(t, "seg")
	sv := func(n string, lim int) int {
		switch rapid.IntRange(0, 3).Draw(t, n+"c") {
		case 0:
			return rapid.SampledFrom([]int{0, lim, -lim, 1, -1}).Draw(t, n+"e")
		default:
			return rapid.IntRange(-lim, lim).Draw(t, n)
		}
	}
	if p.SegEnabled {
		p.SegUpdateMap = rapid.IntRange(0, 3).Draw(t, "segmap") != 0
		p.SegUpdateData = rapid.IntRange(0, 3).Draw(t, "segdata") != 0
		p.SegAbs = rapid.Bool().Draw(t, "segabs")
		for i := 0; i < 4; i++ {
			p.SegQuant[i] = sv("sq", 127)
			p.SegFilter[i] = sv("sf", 63)
			p.SegQuantForce[i] = rapid.Bool().Draw(t, "sqf")
		}
		for i := 0; i < 3; i++ {
			p.SegProbs[i] = 255
			if rapid.Bool().Draw(t, "spf") {
				p.SegProbs[i] = rapid.IntRange(0, 255).Draw(t, "sp")
			}
		}
	}
	p.FilterSimple = rapid.Bool().Draw(t, "simple")
	switch rapid.IntRange(0, 4).Draw(t, "levelc") {
	case 0:
		p.FilterLevel = 0
	case 1:
		p.FilterLevel = 63
	default:
		p.FilterLevel = rapid.IntRange(1, 63).Draw(t, "level")
	}
	p.Sharpness = rapid.SampledFrom([]int{0, 0, 1, 3, 4, 5, 7}).Draw(t, "sharp")
	p.LFDelta = rapid.Bool().Draw(t, "lfd")
	if p.LFDelta {
		p.LFDeltaUpdate = rapid.IntRange(0, 3).Draw(t, "lfu") != 0
		for i := 0; i < 4; i++ {
			p.RefDelta[i] = sv("rd", 63)
			p.ModeDelta[i] = sv("md", 63)
		}
	}
	p.Log2Parts = rapid.IntRange(0, 3).Draw(t, "parts")
	switch rapid.IntRange(0, 4).Draw(t, "qc") {
	case 0:
		p.BaseQ = rapid.SampledFrom([]int{0, 1, 126, 127}).Draw(t, "qe")
	default:
		p.BaseQ = rapid.IntRange(0, 127).Draw(t, "q")
	}
	for i := 0; i < 5; i++ {
		if rapid.IntRange(0, 2).Draw(t, "qdc") == 0 {
			p.QDelta[i] = rapid.IntRange(-15, 15).Draw(t, "qd")
		}
	}
	p.RefreshEnt = rapid.Bool().Draw(t, "refresh")
	n := rapid.SampledFrom([]int{0, 0, 1, 3, 12, 60}).Draw(t, "nproba")
	for i := 0; i < n; i++ {
		p.ProbaUpd = append(p.ProbaUpd, ProbaUpd{rapid.IntRange(0, 3).Draw(t, "pi"), rapid.IntRange(0, 7).Draw(t, "pj"), rapid.IntRange(0, 2).Draw(t, "pk"), rapid.IntRange(0, 10).Draw(t, "pl"), rapid.IntRange(0, 255).Draw(t, "pv")})
	}
	p.UseSkip = rapid.Bool().Draw(t, "useskip")
	if p.UseSkip {
		p.SkipProba = rapid.SampledFrom([]int{0, 1, 64, 128, 200, 254, 255}).Draw(t, "skipp")
	}
	p.ModeSeed = rapid.Uint64().Draw(t, "modeSeed")
	p.TokSeed = rapid.Uint64().Draw(t, "tokSeed")
	p.TokZeroRun = rapid.SampledFrom([]int{0, 0, 50, 90, 99}).Draw(t, "tokZero")
	p.TokOnesRun = rapid.SampledFrom([]int{0, 0, 0, 5, 30, 80}).Draw(t, "tokOnes")
	return p
}

// Build returns the raw VP8 bitstream.
func (p *VP8Prog) Build() []byte {
	mbW, mbH := (p.W+15)/16, (p.H+15)/16
	nMB := mbW * mbH
	e := vp8hdr.NewBoolEnc()
	e.Lit(p.ColorSpace, 1)
	e.Lit(p.Clamp, 1)
	e.Flag(p.SegEnabled)
	if p.SegEnabled {
		e.Flag(p.SegUpdateMap)
		e.Flag(p.SegUpdateData)
		if p.SegUpdateData {
			e.Flag(p.SegAbs)
			for i := 0; i < 4; i++ {
				e.Optional(p.SegQuant[i], 7, p.SegQuantForce[i])
			}
			for i := 0; i < 4; i++ {
				e.Optional(p.SegFilter[i], 6, false)
			}
		}
		if p.SegUpdateMap {
			for i := 0; i < 3; i++ {
				if p.SegProbs[i] == 255 {
					e.Flag(false)
				} else {
					e.Flag(true)
					e.Lit(p.SegProbs[i], 8)
				}
			}
		}
	}
	e.Flag(p.FilterSimple)
	e.Lit(p.FilterLevel, 6)
	e.Lit(p.Sharpness, 3)
	e.Flag(p.LFDelta)
	if p.LFDelta {
		e.Flag(p.LFDeltaUpdate)
		if p.LFDeltaUpdate {
			for i := 0; i < 4; i++ {
				e.Optional(p.RefDelta[i], 6, false)
			}
			for i := 0; i < 4; i++ {
				e.Optional(p.ModeDelta[i], 6, false)
			}
		}
	}
	e.Lit(p.Log2Parts, 2)
	e.Lit(p.BaseQ, 7)
	for i := 0; i < 5; i++ {
		e.Optional(p.QDelta[i], 4, false)
	}
	e.Flag(p.RefreshEnt)
	upd := map[[4]int]int{}
	for _, u := range p.ProbaUpd {
		upd[[4]int{u.I, u.J, u.K, u.L}] = u.V
	}
	for i := 0; i < 4; i++ {
		for j := 0; j < 8; j++ {
			for k := 0; k < 3; k++ {
				for l := 0; l < 11; l++ {
					pr := vp8hdr.CoeffUpdateProb(i, j, k, l)
					if v, ok := upd[[4]int{i, j, k, l}]; ok {
						e.Put(pr, 1)
						e.Lit(v, 8)
					} else {
						e.Put(pr, 0)
					}
				}
			}
		}
	}
	e.Flag(p.UseSkip)
	if p.UseSkip {
		e.Lit(p.SkipProba, 8)
	}
	// random mode bits (any bit string decodes to some mode assignment)
	r := NewRng(p.ModeSeed)
	for i := 0; i < nMB*160+64; i++ {
		e.Put(128, int(r.U64()&1))
	}
	part0 := e.Finish()
	part0 = append(part0, make([]byte, 16)...)
	// token partitions
	nParts := 1 << p.Log2Parts
	tr := NewRng(p.TokSeed)
	parts := make([][]byte, nParts)
	for i := range parts {
		rows := (mbH - i + nParts - 1) / nParts
		if rows < 0 {
			rows = 0
		}
		sz := 64 + rows*mbW*1400
		b := make([]byte, sz)
		for j := range b {
			if p.TokZeroRun > 0 && tr.Intn(100) < p.TokZeroRun {
				b[j] = 0
			} else if p.TokOnesRun > 0 && tr.Intn(100) < p.TokOnesRun {
				b[j] = 0xff
			} else {
				b[j] = tr.Byte()
			}
		}
		// A boolean-coded partition is a binary fraction below 255/256 (the coder's initial
		// range is 255): a first byte of 0xff cannot be produced by any encoder and decoders
		// legitimately differ on it. Everything else is a decodable stream.
		if b[0] == 0xff {
			b[0] = 0xfe
		}
		parts[i] = b
	}
	out := make([]byte, 10, 10+len(part0)+3*nParts+nParts*64)
	tag := uint32(0) | uint32(p.Profile)<<1 | 1<<4 | uint32(len(part0))<<5
	out[0], out[1], out[2] = byte(tag), byte(tag>>8), byte(tag>>16)
	out[3], out[4], out[5] = 0x9d, 0x01, 0x2a
	out[6], out[7] = byte(p.W), byte(p.W>>8)|byte(p.XScale&3)<<6
	out[8], out[9] = byte(p.H), byte(p.H>>8)|byte(p.YScale&3)<<6
	out = append(out, part0...)
	for i := 0; i < nParts-1; i++ {
		n := len(parts[i])
		out = append(out, byte(n), byte(n>>8), byte(n>>16))
	}
	for i := range parts {
		out = append(out, parts[i]...)
	}
	return out
}
