package gen

import (
	"encoding/binary"
	"fmt"

	"pgregory.net/rapid"
)

var knownFourCC = []string{"RIFF", "WEBP", "VP8 ", "VP8L", "VP8X", "ALPH", "ANIM", "ANMF", "ICCP", "EXIF", "XMP "}

// chunkHeaders returns offsets of plausible chunk headers (a known FourCC followed by 4 size bytes).
func chunkHeaders(b []byte) []int {
	var out []int
	for i := 0; i+8 <= len(b); i++ {
		s := string(b[i : i+4])
		for _, k := range knownFourCC {
			if s == k && k != "WEBP" {
				out = append(out, i)
				break
			}
		}
	}
	return out
}

var hostileSizes = []uint32{0, 1, 2, 3, 4, 5, 7, 8, 9, 10, 15, 16, 17, 0x7fffffff, 0x80000000, 0xfffffff6, 0xfffffff7, 0xfffffff8, 0xfffffffe, 0xffffffff}

// Mutate applies 1..n rapid-drawn mutations to a copy of seed; other is a splice partner.
// It returns the mutated bytes and a short description of what was done.
func Mutate(t *rapid.T, seed, other []byte, maxMut int) ([]byte, []string) {
	b := append([]byte(nil), seed...)
	var desc []string
	n := rapid.IntRange(1, maxMut).Draw(t, "nMut")
	for m := 0; m < n; m++ {
		if len(b) == 0 {
			b = append(b, 0)
		}
		kind := rapid.SampledFrom([]string{"bitflip", "bitflip", "byteset", "byteset", "size", "size", "size", "dims", "chunkdel", "chunkdup", "chunkswap", "fourcc", "truncate", "tail", "splice", "insert", "zero-run", "truncfix", "truncfix", "multi-damage"}).Draw(t, "mutKind")
		hdrs := chunkHeaders(b)
		pickHdr := func() int {
			if len(hdrs) == 0 {
				return -1
			}
			return hdrs[rapid.IntRange(0, len(hdrs)-1).Draw(t, "hdr")]
		}
		switch kind {
		case "bitflip":
			p := rapid.IntRange(0, len(b)-1).Draw(t, "pos")
			b[p] ^= 1 << uint(rapid.IntRange(0, 7).Draw(t, "bit"))
			desc = append(desc, fmt.Sprintf("bitflip@%d", p))
		case "byteset":
			p := rapid.IntRange(0, len(b)-1).Draw(t, "pos")
			b[p] = rapid.SampledFrom([]byte{0, 1, 0x7f, 0x80, 0xfe, 0xff, 0x2f, 0x9d}).Draw(t, "val")
			desc = append(desc, fmt.Sprintf("byteset@%d", p))
		case "size":
			h := pickHdr()
			if h < 0 {
				continue
			}
			var v uint32
			switch rapid.IntRange(0, 3).Draw(t, "sizeClass") {
			case 0:
				v = rapid.SampledFrom(hostileSizes).Draw(t, "hostile")
			case 1:
				cur := binary.LittleEndian.Uint32(b[h+4:])
				v = cur + uint32(rapid.IntRange(-9, 9).Draw(t, "delta"))
			case 2:
				v = uint32(len(b) - h + rapid.IntRange(-12, 12).Draw(t, "rel"))
			default:
				v = uint32(rapid.IntRange(0, 70000).Draw(t, "abs"))
			}
			binary.LittleEndian.PutUint32(b[h+4:], v)
			desc = append(desc, fmt.Sprintf("size[%s@%d]=%#x", string(b[h:h+4]), h, v))
		case "dims":
			h := pickHdr()
			if h < 0 || h+8+10 > len(b) {
				continue
			}
			off := h + 8 + rapid.IntRange(0, 16).Draw(t, "dimOff")
			if off+3 > len(b) {
				continue
			}
			v := rapid.SampledFrom([]uint32{0, 1, 0x3fff, 0x4000, 0xffff, 0xffffff, 0x7fffff, 2, 15, 16}).Draw(t, "dimVal")
			b[off], b[off+1], b[off+2] = byte(v), byte(v>>8), byte(v>>16)
			desc = append(desc, fmt.Sprintf("dims@%d=%#x", off, v))
		case "chunkdel", "chunkdup", "chunkswap":
			h := pickHdr()
			if h < 12 {
				continue
			}
			sz := int(binary.LittleEndian.Uint32(b[h+4:]))
			end := h + 8 + sz + sz&1
			if sz < 0 || end > len(b) || end <= h {
				end = len(b)
			}
			chunk := append([]byte(nil), b[h:end]...)
			switch kind {
			case "chunkdel":
				b = append(b[:h:h], b[end:]...)
			case "chunkdup":
				b = append(b[:end:end], append(chunk, b[end:]...)...)
			default:
				h2 := pickHdr()
				if h2 < 12 || h2 == h {
					continue
				}
				// move chunk to h2 (crude swap: delete then insert)
				nb := append([]byte(nil), b[:h]...)
				nb = append(nb, b[end:]...)
				if h2 > len(nb) {
					h2 = len(nb)
				}
				nb = append(nb[:h2:h2], append(chunk, nb[h2:]...)...)
				b = nb
			}
			desc = append(desc, fmt.Sprintf("%s@%d", kind, h))
		case "fourcc":
			h := pickHdr()
			if h < 0 {
				continue
			}
			cc := rapid.SampledFrom(append(knownFourCC, "JUNK", "\x00\x00\x00\x00")).Draw(t, "cc")
			copy(b[h:h+4], cc)
			desc = append(desc, fmt.Sprintf("fourcc@%d=%q", h, cc))
		case "truncate":
			p := rapid.IntRange(0, len(b)).Draw(t, "cut")
			b = b[:p]
			desc = append(desc, fmt.Sprintf("truncate@%d", p))
		case "truncfix":
			p := rapid.IntRange(0, len(b)).Draw(t, "cutfix")
			b = TruncateFix(b, p)
			desc = append(desc, fmt.Sprintf("truncfix@%d", p))
		case "tail":
			k := rapid.IntRange(1, 40).Draw(t, "tailN")
			r := NewRng(rapid.Uint64().Draw(t, "tailSeed"))
			for i := 0; i < k; i++ {
				b = append(b, r.Byte())
			}
			desc = append(desc, fmt.Sprintf("tail+%d", k))
		case "splice":
			if len(other) == 0 {
				continue
			}
			p := rapid.IntRange(0, len(b)).Draw(t, "spliceAt")
			q := rapid.IntRange(0, len(other)).Draw(t, "spliceFrom")
			b = append(b[:p:p], other[q:]...)
			desc = append(desc, fmt.Sprintf("splice@%d<-%d", p, q))
		case "insert":
			p := rapid.IntRange(0, len(b)).Draw(t, "insAt")
			k := rapid.IntRange(1, 16).Draw(t, "insN")
			r := NewRng(rapid.Uint64().Draw(t, "insSeed"))
			ins := make([]byte, k)
			for i := range ins {
				ins[i] = r.Byte()
			}
			b = append(b[:p:p], append(ins, b[p:]...)...)
			desc = append(desc, fmt.Sprintf("insert@%d+%d", p, k))
		case "multi-damage":
			// several frames of one file become undecodable at once (their container framing stays
			// intact): the first payload bytes of each selected VP8/VP8L/ALPH chunk are overwritten
			mask := rapid.Uint32().Draw(t, "mdMask")
			v := rapid.SampledFrom([]byte{0xff, 0x00, 0x2e, 0x5a}).Draw(t, "mdVal")
			k := 0
			for _, h := range hdrs {
				id := string(b[h : h+4])
				if id != "VP8 " && id != "VP8L" && id != "ALPH" {
					continue
				}
				if mask>>(uint(k)%32)&1 == 1 {
					for i := h + 8; i < h+12 && i < len(b); i++ {
						b[i] = v
					}
				}
				k++
			}
			desc = append(desc, fmt.Sprintf("multi-damage mask=%#x of %d", mask, k))
		case "zero-run":
			p := rapid.IntRange(0, len(b)-1).Draw(t, "zAt")
			k := rapid.IntRange(1, 64).Draw(t, "zN")
			v := rapid.SampledFrom([]byte{0, 0xff}).Draw(t, "zV")
			for i := p; i < p+k && i < len(b); i++ {
				b[i] = v
			}
			desc = append(desc, fmt.Sprintf("run@%d*%d=%#x", p, k, v))
		}
	}
	return b, desc
}

// TruncateFix cuts b at p (rounded down to even) and rewrites the RIFF size and the size of every
// chunk the cut falls into (including the ANMF frame that encloses a cut bitstream), so that the
// container is consistent again and only the innermost payload ends early: the damage is then
// found by the bitstream decoders, deep inside their parse loops, not by the container checks.
func TruncateFix(b []byte, p int) []byte {
	p &^= 1
	if p > len(b) {
		p = len(b) &^ 1
	}
	out := append([]byte(nil), b[:p]...)
	if p < 20 || string(out[0:4]) != "RIFF" {
		return out
	}
	put32 := func(off, v int) {
		out[off], out[off+1], out[off+2], out[off+3] = byte(v), byte(v>>8), byte(v>>16), byte(v>>24)
	}
	put32(4, p-8)
	var walk func(start, end int)
	walk = func(start, end int) {
		off := start
		for off+8 <= end && off+8 <= p {
			sz := int(uint32(out[off+4]) | uint32(out[off+5])<<8 | uint32(out[off+6])<<16 | uint32(out[off+7])<<24)
			id := string(out[off : off+4])
			if sz < 0 || off+8+sz > p {
				put32(off+4, p-(off+8))
				if id == "ANMF" && off+8+16 <= p {
					walk(off+8+16, p)
				}
				return
			}
			off += 8 + sz + sz&1
		}
	}
	walk(12, p)
	return out
}
