package gen

import (
	"fmt"
	"math"

	"github.com/deepteams/webp"
	"pgregory.net/rapid"
)

// Opts mirrors webp.EncoderOptions in a JSON-exact form (floats stored as bit patterns).
type Opts struct {
	Nil              bool // pass a nil *EncoderOptions
	Lossless         bool
	QualityBits      uint32
	Method           int
	Preset           int
	UseSharpYUV      bool
	Exact            bool
	TargetSize       int
	TargetPSNRBits   uint32
	Preprocessing    int
	SNSStrength      int
	FilterStrength   int
	FilterSharpness  int
	FilterType       int
	Partitions       int
	Segments         int
	Pass             int
	EmulateJpegSize  bool
	QMin             int
	QMax             int
	AlphaCompression int
	AlphaFiltering   int
	AlphaQuality     int
	ICC, EXIF, XMP   []byte
	ICCNil, EXIFNil, XMPNil bool // true => nil slice (as opposed to empty non-nil)
}

func (o *Opts) Quality() float32    { return math.Float32frombits(o.QualityBits) }
func (o *Opts) TargetPSNR() float32 { return math.Float32frombits(o.TargetPSNRBits) }
func (o *Opts) SetQuality(q float32) { o.QualityBits = math.Float32bits(q) }

// Build converts to the package's options value (nil when o.Nil).
func (o *Opts) Build() *webp.EncoderOptions {
	if o.Nil {
		return nil
	}
	blob := func(b []byte, isNil bool) []byte {
		if isNil && len(b) == 0 {
			return nil
		}
		if b == nil {
			return []byte{}
		}
		return b
	}
	return &webp.EncoderOptions{
		Lossless: o.Lossless, Quality: o.Quality(), Method: o.Method, Preset: webp.Preset(o.Preset),
		UseSharpYUV: o.UseSharpYUV, Exact: o.Exact, TargetSize: o.TargetSize, TargetPSNR: o.TargetPSNR(),
		Preprocessing: o.Preprocessing, SNSStrength: o.SNSStrength, FilterStrength: o.FilterStrength,
		FilterSharpness: o.FilterSharpness, FilterType: o.FilterType, Partitions: o.Partitions,
		Segments: o.Segments, Pass: o.Pass, EmulateJpegSize: o.EmulateJpegSize, QMin: o.QMin, QMax: o.QMax,
		AlphaCompression: o.AlphaCompression, AlphaFiltering: o.AlphaFiltering, AlphaQuality: o.AlphaQuality,
		ICC: blob(o.ICC, o.ICCNil), EXIF: blob(o.EXIF, o.EXIFNil), XMP: blob(o.XMP, o.XMPNil),
	}
}

// FromDefault returns the JSON-exact image of webp.DefaultOptions().
func FromDefault() *Opts {
	d := webp.DefaultOptions()
	return FromOptions(d)
}

func FromOptions(d *webp.EncoderOptions) *Opts {
	return &Opts{
		Lossless: d.Lossless, QualityBits: math.Float32bits(d.Quality), Method: d.Method, Preset: int(d.Preset),
		UseSharpYUV: d.UseSharpYUV, Exact: d.Exact, TargetSize: d.TargetSize, TargetPSNRBits: math.Float32bits(d.TargetPSNR),
		Preprocessing: d.Preprocessing, SNSStrength: d.SNSStrength, FilterStrength: d.FilterStrength,
		FilterSharpness: d.FilterSharpness, FilterType: d.FilterType, Partitions: d.Partitions, Segments: d.Segments,
		Pass: d.Pass, EmulateJpegSize: d.EmulateJpegSize, QMin: d.QMin, QMax: d.QMax,
		AlphaCompression: d.AlphaCompression, AlphaFiltering: d.AlphaFiltering, AlphaQuality: d.AlphaQuality,
		ICC: d.ICC, EXIF: d.EXIF, XMP: d.XMP, ICCNil: d.ICC == nil, EXIFNil: d.EXIF == nil, XMPNil: d.XMP == nil,
	}
}

func (o *Opts) Summary() map[string]any {
	m := map[string]any{"lossless": o.Lossless, "q": fmt.Sprint(o.Quality()), "m": o.Method}
	if o.Nil {
		return map[string]any{"nil": true}
	}
	if !o.Lossless {
		m["seg"], m["part"], m["pass"], m["sns"], m["fstr"], m["fsharp"], m["ftype"] = o.Segments, o.Partitions, o.Pass, o.SNSStrength, o.FilterStrength, o.FilterSharpness, o.FilterType
		m["preset"], m["prep"], m["sharp"], m["tsize"], m["tpsnr"] = o.Preset, o.Preprocessing, o.UseSharpYUV, o.TargetSize, fmt.Sprint(o.TargetPSNR())
		m["qmin"], m["qmax"] = o.QMin, o.QMax
		m["ac"], m["af"], m["aq"] = o.AlphaCompression, o.AlphaFiltering, o.AlphaQuality
	}
	m["exact"] = o.Exact
	m["meta"] = fmt.Sprintf("icc%d exif%d xmp%d", len(o.ICC), len(o.EXIF), len(o.XMP))
	return m
}

// QualityBand buckets quality the way the lossless encoder's decisions do.
func QualityBand(q float32) string {
	switch {
	case q < 10:
		return "0-9"
	case q < 25:
		return "10-24"
	case q < 50:
		return "25-49"
	case q < 75:
		return "50-74"
	case q < 90:
		return "75-89"
	default:
		return "90-100"
	}
}

func drawQuality(t *rapid.T) float32 {
	switch rapid.IntRange(0, 5).Draw(t, "qClass") {
	case 0:
		return rapid.SampledFrom([]float32{0, 1, 9.99, 10, 24, 25, 49.5, 50, 74.99, 75, 89, 90, 99, 99.99, 100}).Draw(t, "qEdge")
	case 1:
		return float32(rapid.Float64Range(0, 100).Draw(t, "qFrac"))
	default:
		return float32(rapid.IntRange(0, 100).Draw(t, "q"))
	}
}

// DrawBlob draws a metadata blob: nil, empty, 1 byte, odd, even, chunk-like.
func DrawBlob(t *rapid.T, name string, maxLen int) (b []byte, isNil bool) {
	switch rapid.IntRange(0, 8).Draw(t, name+"Class") {
	case 0, 1, 2:
		return nil, true
	case 8:
		// what real files carry: the signatures of the three metadata formats (and of their usual
		// wrappers in other containers), alone or followed by a body. A writer that "normalises" such
		// a payload is not storing the caller's bytes.
		heads := [][]byte{[]byte("Exif\x00\x00"), []byte("Exif\x00\x00II*\x00\x08\x00\x00\x00"), []byte("II*\x00\x08\x00\x00\x00"), []byte("MM\x00*\x00\x00\x00\x08"),
			[]byte("http://ns.adobe.com/xap/1.0/\x00"), []byte("<?xpacket begin=\"\xef\xbb\xbf\" id=\"W5M0MpCehiHzreSzNTczkc9d\"?>"), []byte("<x:xmpmeta xmlns:x=\"adobe:ns:meta/\">"), []byte("\xef\xbb\xbf<?xml"),
			[]byte("ICC_PROFILE\x00\x01\x01"), append(append([]byte{0, 0, 2, 0x30}, []byte("ADBE\x02\x10\x00\x00mntrRGB XYZ \x07\xcf\x00\x06\x00\x03\x00\x00\x00\x00\x00\x00")...), []byte("acspAPPL")...),
			[]byte("\xff\xe1\x00\x10Exif\x00\x00"), []byte("\x00\x00\x00\x00"), []byte("\r\n"), []byte(" ")}
		b = append(b, rapid.SampledFrom(heads).Draw(t, name+"head")...)
		if n := rapid.IntRange(0, 24).Draw(t, name+"bodyLen"); n > 0 {
			r := NewRng(rapid.Uint64().Draw(t, name+"bodySeed"))
			for i := 0; i < n; i++ {
				b = append(b, r.Byte())
			}
		}
		if rapid.IntRange(0, 3).Draw(t, name+"trail") == 0 {
			b = append(b, rapid.SampledFrom([][]byte{{0}, {0, 0}, []byte(" \n"), []byte("<?xpacket end=\"w\"?>")}).Draw(t, name+"tail")...)
		}
		return b, false
	case 3:
		return []byte{}, false
	case 4:
		return []byte{rapid.Byte().Draw(t, name+"1")}, false
	case 5:
		// chunk-like content
		pool := [][]byte{[]byte("RIFF"), []byte("WEBP"), []byte("VP8X"), []byte("VP8 "), []byte("VP8L"), []byte("ALPH"), []byte("ANMF"), []byte("EXIF"), {0x0a, 0, 0, 0}, {0, 0, 0, 0}, {0xff, 0xff, 0xff, 0x7f}}
		n := rapid.IntRange(1, 6).Draw(t, name+"N")
		for i := 0; i < n; i++ {
			b = append(b, rapid.SampledFrom(pool).Draw(t, name+"tok")...)
		}
		if rapid.Bool().Draw(t, name+"odd") {
			b = append(b, 0x2f)
		}
		return b, false
	default:
		n := rapid.IntRange(2, maxLen).Draw(t, name+"Len")
		if maxLen >= 40 && rapid.IntRange(0, 3).Draw(t, name+"Pow2") == 0 {
			// lengths around powers of two (and 8 below them: a payload plus its chunk header), where
			// fixed-size staging buffers and size classes change; up to 4 KiB unless the caller allows more
			kmax := 12
			for (1 << (kmax + 1)) <= maxLen {
				kmax++
			}
			n = (1 << rapid.IntRange(3, kmax).Draw(t, name+"Pow2k")) + rapid.IntRange(-9, 9).Draw(t, name+"Pow2d")
			if n < 1 {
				n = 1
			}
		}
		seed := rapid.Uint64().Draw(t, name+"Seed")
		r := NewRng(seed)
		b = make([]byte, n)
		for i := range b {
			b[i] = r.Byte()
		}
		return b, false
	}
}

// DrawMeta fills the three metadata fields.
func (o *Opts) DrawMeta(t *rapid.T, maxLen int) {
	o.ICC, o.ICCNil = DrawBlob(t, "icc", maxLen)
	o.EXIF, o.EXIFNil = DrawBlob(t, "exif", maxLen)
	o.XMP, o.XMPNil = DrawBlob(t, "xmp", maxLen)
}

func (o *Opts) NoMeta() {
	o.ICC, o.EXIF, o.XMP = nil, nil, nil
	o.ICCNil, o.EXIFNil, o.XMPNil = true, true, true
}

// HasMeta reports whether any blob is non-empty.
func (o *Opts) HasMeta() bool { return len(o.ICC) > 0 || len(o.EXIF) > 0 || len(o.XMP) > 0 }

// DrawLosslessOpts draws a valid lossless option set.
func DrawLosslessOpts(t *rapid.T) *Opts {
	o := FromDefault()
	o.Lossless = true
	o.SetQuality(drawQuality(t))
	o.Method = rapid.IntRange(0, 6).Draw(t, "method")
	o.Exact = rapid.Bool().Draw(t, "exact")
	o.NoMeta()
	return o
}

// DrawLossyOpts draws a valid lossy option set over the whole documented domain.
// targets: allow TargetSize/TargetPSNR.
func DrawLossyOpts(t *rapid.T, targets bool) *Opts {
	o := FromDefault()
	o.Lossless = false
	o.SetQuality(drawQuality(t))
	o.Method = rapid.IntRange(0, 6).Draw(t, "method")
	o.Exact = rapid.Bool().Draw(t, "exact")
	if rapid.IntRange(0, 3).Draw(t, "usePreset") == 0 {
		p := rapid.IntRange(0, 5).Draw(t, "preset")
		po := webp.OptionsForPreset(webp.Preset(p), o.Quality())
		m, e := o.Method, o.Exact
		o = FromOptions(po)
		o.Method, o.Exact = m, e
	}
	pick := func(name string, sentinel int, lo, hi int) int {
		switch rapid.IntRange(0, 3).Draw(t, name+"Class") {
		case 0:
			return sentinel
		case 1:
			return rapid.SampledFrom([]int{lo, hi}).Draw(t, name+"Edge")
		default:
			return rapid.IntRange(lo, hi).Draw(t, name)
		}
	}
	if rapid.Bool().Draw(t, "varyCore") {
		o.SNSStrength = pick("sns", -1, 0, 100)
		o.FilterStrength = pick("fstr", -1, 0, 100)
		o.FilterSharpness = rapid.IntRange(0, 7).Draw(t, "fsharp")
		o.FilterType = pick("ftype", -1, 0, 1)
	}
	o.Partitions = rapid.IntRange(0, 3).Draw(t, "partitions")
	o.Segments = pick("segments", -1, 1, 4)
	if rapid.IntRange(0, 3).Draw(t, "multiPass") == 0 {
		o.Pass = rapid.IntRange(1, 10).Draw(t, "pass")
	}
	o.Preprocessing = rapid.IntRange(0, 3).Draw(t, "prep")
	o.UseSharpYUV = rapid.IntRange(0, 4).Draw(t, "sharp") == 0
	if rapid.IntRange(0, 3).Draw(t, "useQ") == 0 {
		o.QMin = rapid.IntRange(0, 100).Draw(t, "qmin")
		o.QMax = rapid.IntRange(o.QMin, 100).Draw(t, "qmax")
	}
	if targets {
		switch rapid.IntRange(0, 7).Draw(t, "target") {
		case 0:
			o.TargetSize = rapid.IntRange(1, 6000).Draw(t, "tsize")
		case 1:
			o.TargetPSNRBits = math.Float32bits(float32(rapid.IntRange(20, 50).Draw(t, "tpsnr")))
		}
	}
	o.AlphaCompression = rapid.SampledFrom([]int{-1, 0, 1}).Draw(t, "ac")
	o.AlphaFiltering = rapid.SampledFrom([]int{-1, 0, 1, 2}).Draw(t, "af")
	if rapid.IntRange(0, 2).Draw(t, "aqClass") == 0 {
		o.AlphaQuality = rapid.IntRange(0, 100).Draw(t, "aq")
	} else {
		o.AlphaQuality = rapid.SampledFrom([]int{-1, 100}).Draw(t, "aqDef")
	}
	o.NoMeta()
	return o
}
