package gen

import (
	"sort"

	"pgregory.net/rapid"
)

// VP8L stream generator ("free mode"): writes syntactically valid VP8L bitstreams from the WebP
// lossless specification with /verif's own bit writer, prefix-code builder and code-length
// coder. The syntax choices (transform set and order, tile bits, palette size, cache bits, meta
// prefix image, code shapes) are drawn through rapid; the bulk symbol values come from a PRNG
// seeded through rapid. What the stream decodes to is defined by the reference decoders.

type VP8LProg struct {
	W, H       int
	Alpha      bool
	Transforms []VP8LTransform
	CacheBits  int // 0 = no colour cache
	MetaBits   int // 0 = no meta prefix image, else 2..9
	Groups     int // number of prefix-code groups when MetaBits>0
	UnusedGrp  bool
	CodeStyle  string // mixed simple normal rle maxsym
	RefPct     int    // percentage of backward references among pixel actions
	CachePct   int    // percentage of cache hits
	LitSpread  int    // number of distinct values per literal channel (1..256)
	LongDist   bool   // use linear (non plane-code) distances too
	CodeShape  string // "" or balanced | random | deep (codes padded so that 13..15-bit codewords are in use)
	LongCopies bool   // a third of the backward references copy up to 4096 pixels (9/10 extra length bits)
	TrivialGrp bool   // with >= 2 groups: about a third of the groups are "trivial" (all five codes single-symbol: one literal colour, zero bits per pixel)
	Seed       uint64
}

type VP8LTransform struct {
	Type int // 0 predictor, 1 cross-colour, 2 subtract green, 3 colour indexing
	Bits int // tile bits 2..9 (types 0,1)
	NPal int // palette size 1..256 (type 3)
	Mode1415 bool
}

func (p *VP8LProg) Summary() map[string]any {
	var tr []int
	for _, t := range p.Transforms {
		tr = append(tr, t.Type)
	}
	return map[string]any{"w": p.W, "h": p.H, "transforms": tr, "cache": p.CacheBits, "meta": p.MetaBits, "groups": p.Groups, "style": p.CodeStyle, "ref%": p.RefPct, "cache%": p.CachePct, "lit": p.LitSpread, "shape": p.CodeShape, "longcopies": p.LongCopies, "trivialgroups": p.TrivialGrp}
}

func DrawVP8L(t *rapid.T, maxSide int) *VP8LProg {
	p := &VP8LProg{}
	side := func(n string) int {
		if rapid.IntRange(0, 3).Draw(t, n+"c") == 0 {
			return rapid.SampledFrom([]int{1, 2, 3, 4, 5, 7, 8, 9, 15, 16, 17, 31, 32, 33}).Draw(t, n+"e")
		}
		return rapid.IntRange(1, maxSide).Draw(t, n)
	}
	p.W, p.H = side("w"), side("h")
	p.Alpha = rapid.Bool().Draw(t, "alphaHint")
	order := rapid.Permutation([]int{0, 1, 2, 3}).Draw(t, "trOrder")
	n := rapid.IntRange(0, 4).Draw(t, "nTransforms")
	for _, ty := range order[:n] {
		tr := VP8LTransform{Type: ty}
		switch ty {
		case 0, 1:
			tr.Bits = rapid.IntRange(2, 9).Draw(t, "tileBits")
			tr.Mode1415 = rapid.IntRange(0, 19).Draw(t, "mode1415") == 0
		case 3:
			tr.NPal = rapid.SampledFrom([]int{1, 2, 3, 4, 5, 16, 17, 100, 255, 256}).Draw(t, "npal")
		}
		p.Transforms = append(p.Transforms, tr)
	}
	if rapid.Bool().Draw(t, "useCache") {
		p.CacheBits = rapid.IntRange(1, 11).Draw(t, "cacheBits")
	}
	if rapid.IntRange(0, 2).Draw(t, "useMeta") == 0 {
		p.MetaBits = rapid.IntRange(2, 9).Draw(t, "metaBits")
		p.Groups = rapid.SampledFrom([]int{1, 2, 2, 3, 3, 7, 7, 30, 30, 300, 1100}).Draw(t, "groups")
		p.UnusedGrp = rapid.Bool().Draw(t, "unusedGroup")
		p.TrivialGrp = p.Groups >= 2 && rapid.IntRange(0, 2).Draw(t, "trivialGroups") == 0
	}
	p.CodeStyle = rapid.SampledFrom([]string{"mixed", "mixed", "simple", "normal", "rle", "maxsym"}).Draw(t, "codeStyle")
	p.RefPct = rapid.SampledFrom([]int{0, 5, 20, 60}).Draw(t, "refPct")
	if p.CacheBits > 0 {
		p.CachePct = rapid.SampledFrom([]int{0, 10, 40}).Draw(t, "cachePct")
	}
	p.LitSpread = rapid.SampledFrom([]int{1, 2, 3, 16, 256}).Draw(t, "litSpread")
	p.LongDist = rapid.Bool().Draw(t, "longDist")
	p.CodeShape = rapid.SampledFrom([]string{"balanced", "balanced", "random", "deep", "deep"}).Draw(t, "codeShape")
	p.LongCopies = rapid.IntRange(0, 3).Draw(t, "longCopies") == 0
	p.Seed = rapid.Uint64().Draw(t, "seed")
	return p
}

// ---- bit writer (LSB first) ----

type bitW struct {
	buf []byte
	acc uint64
	n   uint
}

func (w *bitW) put(v uint32, nbits int) {
	if nbits == 0 {
		return
	}
	w.acc |= uint64(v&(1<<uint(nbits)-1)) << w.n
	w.n += uint(nbits)
	for w.n >= 8 {
		w.buf = append(w.buf, byte(w.acc))
		w.acc >>= 8
		w.n -= 8
	}
}

func (w *bitW) bytes() []byte {
	out := append([]byte(nil), w.buf...)
	if w.n > 0 {
		out = append(out, byte(w.acc))
	}
	return out
}

// ---- prefix codes ----

type pcode struct {
	lens  []int
	codes []uint32
	used  int
}

// canonical code assignment (RFC 1951 style), as the specification prescribes
func buildCode(lens []int) *pcode {
	c := &pcode{lens: lens, codes: make([]uint32, len(lens))}
	var blCount [17]int
	for _, l := range lens {
		if l > 0 {
			blCount[l]++
			c.used++
		}
	}
	var next [17]uint32
	var code uint32
	// next_code[bits] = (next_code[bits-1] + bl_count[bits-1]) << 1 with bl_count[0]=0
	blCount[0] = 0
	for b := 1; b <= 16; b++ {
		code = (code + uint32(blCount[b-1])) << 1
		next[b] = code
	}
	for s, l := range lens {
		if l > 0 {
			c.codes[s] = next[l]
			next[l]++
		}
	}
	return c
}

// sym writes symbol s (most significant code bit first). A code with a single used symbol has
// zero-length codewords.
func (w *bitW) sym(c *pcode, s int) {
	if c.lens[s] == 0 {
		panic("vp8lgen: symbol not in code")
	}
	if c.used == 1 {
		return
	}
	l := c.lens[s]
	for i := l - 1; i >= 0; i-- {
		w.put((c.codes[s]>>uint(i))&1, 1)
	}
}

// completeLens returns code lengths over `alphabet` symbols, non-zero exactly for `used`, forming
// a complete prefix code (Kraft sum 1) with lengths <= maxLen. One used symbol gets length 1.
func completeLens(r *Rng, alphabet int, used []int, maxLen int) []int {
	return completeLensShape(r, alphabet, used, maxLen, "", nil)
}

// completeLensShape: shape "deep" always splits the deepest splittable leaf (a spine with a full
// subtree at the bottom: as many maxLen-bit codewords as the symbol count allows) and gives the
// longest codewords to the symbols in `prefer` first; "random" splits a random leaf.
func completeLensShape(r *Rng, alphabet int, used []int, maxLen int, shape string, prefer map[int]bool) []int {
	lens := make([]int, alphabet)
	k := len(used)
	if k == 0 {
		panic("vp8lgen: empty code")
	}
	if k == 1 {
		lens[used[0]] = 1 + r.Intn(maxLen)
		return lens
	}
	// random full binary tree by splitting leaves; leaves at depth d
	depths := []int{1, 1}
	for len(depths) < k {
		// pick a leaf that can still be split
		var cand []int
		for i, d := range depths {
			if d < maxLen {
				cand = append(cand, i)
			}
		}
		i := cand[r.Intn(len(cand))]
		if shape == "deep" {
			best := cand[0]
			for _, j := range cand {
				if depths[j] > depths[best] {
					best = j
				}
			}
			i = best
		} else if shape != "random" && r.Intn(3) > 0 { // prefer balanced: split a shallowest candidate
			best := cand[0]
			for _, j := range cand {
				if depths[j] < depths[best] {
					best = j
				}
			}
			i = best
		}
		d := depths[i] + 1
		depths[i] = d
		depths = append(depths, d)
	}
	perm := make([]int, k)
	for i := range perm {
		perm[i] = i
	}
	for i := k - 1; i > 0; i-- {
		j := r.Intn(i + 1)
		perm[i], perm[j] = perm[j], perm[i]
	}
	if shape == "deep" && len(prefer) > 0 && r.Intn(3) > 0 {
		// longest codewords go to the preferred (actually occurring) symbols
		sort.Sort(sort.Reverse(sort.IntSlice(depths)))
		order := make([]int, 0, k)
		for _, s := range used {
			if prefer[s] {
				order = append(order, s)
			}
		}
		for i := len(order) - 1; i > 0; i-- {
			j := r.Intn(i + 1)
			order[i], order[j] = order[j], order[i]
		}
		for _, s := range used {
			if !prefer[s] {
				order = append(order, s)
			}
		}
		for i, s := range order {
			lens[s] = depths[i]
		}
		return lens
	}
	for i, s := range used {
		lens[s] = depths[perm[i]]
	}
	return lens
}

var codeLengthOrder = [19]int{17, 18, 0, 1, 2, 3, 4, 5, 16, 6, 7, 8, 9, 10, 11, 12, 13, 14, 15}

type clToken struct{ sym, extra, nbits int }

// writeCode writes the code description (simple or normal form) for lens.
func (g *vp8lW) writeCode(lens []int, style string) {
	w, r := g.w, g.r
	alphabet := len(lens)
	var used []int
	for s, l := range lens {
		if l > 0 {
			used = append(used, s)
		}
	}
	simpleOK := len(used) <= 2 && used[len(used)-1] < 256
	if len(used) == 2 && (lens[used[0]] != 1 || lens[used[1]] != 1) {
		simpleOK = false
	}
	useSimple := simpleOK && (style == "simple" || (style == "mixed" && r.Intn(2) == 0))
	if style == "normal" || style == "rle" || style == "maxsym" {
		useSimple = false
	}
	if useSimple {
		w.put(1, 1)
		w.put(uint32(len(used)-1), 1)
		// the two symbols may be transmitted in either order; codes are assigned canonically
		first, second := used[0], -1
		if len(used) == 2 {
			second = used[1]
			if r.Intn(2) == 0 {
				first, second = second, first
				g.stat["code-simple-descending"]++
			}
		}
		if first < 2 && r.Intn(2) == 0 {
			w.put(0, 1)
			w.put(uint32(first), 1)
		} else {
			w.put(1, 1)
			w.put(uint32(first), 8)
		}
		if len(used) == 2 {
			w.put(uint32(second), 8)
		}
		g.stat["code-simple"]++
		return
	}
	w.put(0, 1)
	// tokenise the length sequence
	last := alphabet
	useMax := style == "maxsym" || (style == "mixed" && r.Intn(3) == 0)
	if useMax {
		last = used[len(used)-1] + 1
	}
	useRLE := style == "rle" || style == "maxsym" || (style == "mixed" && r.Intn(2) == 0)
	var toks []clToken
	prev := 8
	for i := 0; i < last; {
		l := lens[i]
		run := 1
		for i+run < last && lens[i+run] == l {
			run++
		}
		if useRLE && l == 0 && run >= 3 {
			n := run
			if n > 138 {
				n = 138
			}
			if n >= 11 {
				toks = append(toks, clToken{18, n - 11, 7})
			} else {
				toks = append(toks, clToken{17, n - 3, 3})
			}
			i += n
			continue
		}
		if useRLE && l != 0 && l == prev && run >= 3 {
			n := run
			if n > 6 {
				n = 6
			}
			toks = append(toks, clToken{16, n - 3, 2})
			i += n
			continue
		}
		toks = append(toks, clToken{l, 0, 0})
		if l != 0 {
			prev = l
		}
		i++
	}
	if useMax && (len(toks) < 2 || len(toks) > alphabet) {
		// max_symbol form needs 2 <= tokens <= alphabet; fall back to the plain form
		useMax = false
		for i := last; i < alphabet; i++ {
			toks = append(toks, clToken{0, 0, 0})
		}
	}
	// code-length code over the token symbols in use
	seen := map[int]bool{}
	var clUsed []int
	for _, t := range toks {
		if !seen[t.sym] {
			seen[t.sym] = true
			clUsed = append(clUsed, t.sym)
		}
	}
	sort.Ints(clUsed)
	clLens := completeLens(r, 19, clUsed, 7)
	numCL := 4
	for i := 0; i < 19; i++ {
		if clLens[codeLengthOrder[i]] > 0 && i+1 > numCL {
			numCL = i + 1
		}
	}
	w.put(uint32(numCL-4), 4)
	for i := 0; i < numCL; i++ {
		w.put(uint32(clLens[codeLengthOrder[i]]), 3)
	}
	if useMax {
		w.put(1, 1)
		n := len(toks)
		// length_nbits = 2 + 2*k must hold n-2
		k := 0
		for (n-2)>>uint(2+2*k) != 0 {
			k++
		}
		if r.Intn(2) == 0 && k < 7 {
			k++
		}
		w.put(uint32(k), 3)
		w.put(uint32(n-2), 2+2*k)
		g.stat["code-maxsym"]++
	} else {
		w.put(0, 1)
	}
	cl := buildCode(clLens)
	for _, t := range toks {
		w.sym(cl, t.sym)
		w.put(uint32(t.extra), t.nbits)
		if t.sym >= 16 {
			g.stat["code-rle"]++
		}
	}
	g.stat["code-normal"]++
}

// ---- image data ----

type vp8lW struct {
	w    *bitW
	r    *Rng
	p    *VP8LProg
	stat map[string]int
}

var distMapXY = [120][2]int{
	{0, 1}, {1, 0}, {1, 1}, {-1, 1}, {0, 2}, {2, 0}, {1, 2}, {-1, 2},
	{2, 1}, {-2, 1}, {2, 2}, {-2, 2}, {0, 3}, {3, 0}, {1, 3}, {-1, 3},
	{3, 1}, {-3, 1}, {2, 3}, {-2, 3}, {3, 2}, {-3, 2}, {0, 4}, {4, 0},
	{1, 4}, {-1, 4}, {4, 1}, {-4, 1}, {3, 3}, {-3, 3}, {2, 4}, {-2, 4},
	{4, 2}, {-4, 2}, {0, 5}, {3, 4}, {-3, 4}, {4, 3}, {-4, 3}, {5, 0},
	{1, 5}, {-1, 5}, {5, 1}, {-5, 1}, {2, 5}, {-2, 5}, {5, 2}, {-5, 2},
	{4, 4}, {-4, 4}, {3, 5}, {-3, 5}, {5, 3}, {-5, 3}, {0, 6}, {6, 0},
	{1, 6}, {-1, 6}, {6, 1}, {-6, 1}, {2, 6}, {-2, 6}, {6, 2}, {-6, 2},
	{4, 5}, {-4, 5}, {5, 4}, {-5, 4}, {3, 6}, {-3, 6}, {6, 3}, {-6, 3},
	{0, 7}, {7, 0}, {1, 7}, {-1, 7}, {5, 5}, {-5, 5}, {7, 1}, {-7, 1},
	{4, 6}, {-4, 6}, {6, 4}, {-6, 4}, {2, 7}, {-2, 7}, {7, 2}, {-7, 2},
	{3, 7}, {-3, 7}, {7, 3}, {-7, 3}, {5, 6}, {-5, 6}, {6, 5}, {-6, 5},
	{8, 0}, {4, 7}, {-4, 7}, {7, 4}, {-7, 4}, {8, 1}, {8, 2}, {6, 6},
	{-6, 6}, {8, 3}, {5, 7}, {-5, 7}, {7, 5}, {-7, 5}, {8, 4}, {6, 7},
	{-6, 7}, {7, 6}, {-7, 6}, {8, 5}, {7, 7}, {-7, 7}, {8, 6}, {8, 7},
}

// DistMapXY exposes the table for cross-checking against an independent copy.
func DistMapXY() [120][2]int { return distMapXY }

// prefixEncode splits a length or distance-code value v>=1 into (prefix symbol, extra bits, n).
func prefixEncode(v int) (sym, extra, nbits int) {
	for pc := 0; pc < 40; pc++ {
		if pc < 4 {
			if v == pc+1 {
				return pc, 0, 0
			}
			continue
		}
		eb := (pc - 2) >> 1
		off := (2 + (pc & 1)) << uint(eb)
		lo, hi := off+1, off+(1<<uint(eb))
		if v >= lo && v <= hi {
			return pc, v - lo, eb
		}
	}
	panic("vp8lgen: value out of prefix range")
}

type pixAction struct {
	kind   int // 0 literal, 1 backref, 2 cache
	argb   uint32
	length int
	dcode  int // distance code value (plane code 1..120 or 120+dist)
	cidx   int
}

// writeImageStream writes an entropy-coded image of xsize*ysize pixels. literal(pos) supplies
// literal pixel values. level0 selects whether a meta prefix image may be present.
func (g *vp8lW) writeImageStream(xsize, ysize int, level0, pureLiterals bool, literal func(pos int) uint32) {
	w, r, p := g.w, g.r, g.p
	cacheBits := 0
	if level0 {
		cacheBits = p.CacheBits
	} else if r.Intn(4) == 0 {
		cacheBits = 1 + r.Intn(11)
	}
	if cacheBits > 0 {
		w.put(1, 1)
		w.put(uint32(cacheBits), 4)
	} else {
		w.put(0, 1)
	}
	cacheSize := 0
	if cacheBits > 0 {
		cacheSize = 1 << uint(cacheBits)
	}
	groups := 1
	metaBits := 0
	var groupOf func(pos int) int
	groupOf = func(int) int { return 0 }
	if level0 {
		if p.MetaBits > 0 {
			metaBits = p.MetaBits
			w.put(1, 1)
			w.put(uint32(metaBits-2), 3)
			mx := (xsize + (1 << uint(metaBits)) - 1) >> uint(metaBits)
			my := (ysize + (1 << uint(metaBits)) - 1) >> uint(metaBits)
			groups = p.Groups
			idx := make([]int, mx*my)
			for i := range idx {
				if p.UnusedGrp && groups >= 2 {
					idx[i] = 1 + r.Intn(groups-1) // group 0 is never referenced but still carries codes
				} else {
					idx[i] = r.Intn(groups)
				}
			}
			idx[len(idx)-1] = groups - 1 // the number of groups is the largest index + 1
			g.writeImageStream(mx, my, false, true, func(pos int) uint32 {
				v := idx[pos]
				return 0xff000000 | uint32(v>>8)<<16 | uint32(v&0xff)<<8 | uint32(r.Intn(256))
			})
			groupOf = func(pos int) int {
				x, y := pos%xsize, pos/xsize
				return idx[(y>>uint(metaBits))*mx+(x>>uint(metaBits))]
			}
			g.stat["meta"]++
		} else {
			w.put(0, 1)
		}
	}
	// plan the pixel actions
	total := xsize * ysize
	var plan []pixAction
	var planPos []int
	// trivial groups: every pixel that starts in one of their tiles is the same literal, so that all
	// five codes of the group have a single symbol (decoders take a zero-bit fast path there)
	trivial := map[int]uint32{}
	if level0 && p.TrivialGrp && groups >= 2 {
		for gi := 0; gi < groups; gi++ {
			if r.Intn(3) == 0 {
				trivial[gi] = uint32(r.U64())
			}
		}
		if len(trivial) == groups {
			delete(trivial, groups-1)
		}
		g.stat["trivialgroups"] += len(trivial)
	}
	for pos := 0; pos < total; {
		roll := r.Intn(100)
		if tv, ok := trivial[groupOf(pos)]; ok {
			plan = append(plan, pixAction{kind: 0, argb: tv})
			planPos = append(planPos, pos)
			pos++
			continue
		}
		switch {
		case !pureLiterals && pos > 0 && roll < p.RefPct:
			maxLen := total - pos
			if maxLen > 4096 {
				maxLen = 4096
			}
			l := 1 + r.Intn(minI(maxLen, 1+r.Intn(40)))
			if r.Intn(30) == 0 {
				l = maxLen
			}
			if p.LongCopies && r.Intn(3) == 0 {
				l = 1 + r.Intn(maxLen)
			}
			var dcode int
			if !p.LongDist || r.Intn(2) == 0 {
				// plane code: pick one whose mapped distance is valid here
				ok := false
				for try := 0; try < 8 && !ok; try++ {
					c := 1 + r.Intn(120)
					d := distMapXY[c-1][0] + distMapXY[c-1][1]*xsize
					if d < 1 {
						d = 1
					}
					if d <= pos {
						dcode, ok = c, true
					}
				}
				if !ok {
					dcode = 2 // (1,0): distance 1
				}
			} else {
				dcode = 120 + 1 + r.Intn(pos)
			}
			plan = append(plan, pixAction{kind: 1, length: l, dcode: dcode})
			planPos = append(planPos, pos)
			pos += l
			g.stat["backref"]++
		case !pureLiterals && cacheSize > 0 && roll < p.RefPct+p.CachePct:
			plan = append(plan, pixAction{kind: 2, cidx: r.Intn(cacheSize)})
			planPos = append(planPos, pos)
			pos++
			g.stat["cachehit"]++
		default:
			plan = append(plan, pixAction{kind: 0, argb: literal(pos)})
			planPos = append(planPos, pos)
			pos++
		}
	}
	// symbol usage per group
	type usage struct{ g, rr, b, a, d map[int]bool }
	us := make([]usage, groups)
	for i := range us {
		us[i] = usage{map[int]bool{}, map[int]bool{}, map[int]bool{}, map[int]bool{}, map[int]bool{}}
	}
	for i, a := range plan {
		u := &us[groupOf(planPos[i])]
		switch a.kind {
		case 0:
			u.g[int(a.argb>>8)&0xff] = true
			u.rr[int(a.argb>>16)&0xff] = true
			u.b[int(a.argb)&0xff] = true
			u.a[int(a.argb>>24)&0xff] = true
		case 1:
			ls, _, _ := prefixEncode(a.length)
			ds, _, _ := prefixEncode(a.dcode)
			u.g[256+ls] = true
			u.d[ds] = true
		case 2:
			u.g[256+24+a.cidx] = true
		}
	}
	// codes
	type codes struct{ g, rr, b, a, d *pcode }
	cs := make([]codes, groups)
	curTrivial := false
	keys := func(m map[int]bool, alphabet int) []int {
		var k []int
		for s := range m {
			k = append(k, s)
		}
		// add a few unused-but-coded symbols sometimes (codes may cover more than what occurs)
		if !curTrivial && r.Intn(3) == 0 {
			for i := 0; i < 1+r.Intn(4); i++ {
				s := r.Intn(alphabet)
				if !m[s] {
					m[s] = true
					k = append(k, s)
				}
			}
		}
		if len(k) == 0 {
			s := r.Intn(minI(alphabet, 256))
			m[s] = true
			k = append(k, s)
		}
		sort.Ints(k)
		return k
	}
	mk := func(m map[int]bool, alphabet int) *pcode {
		occurring := map[int]bool{}
		for s := range m {
			occurring[s] = true
		}
		k := keys(m, alphabet)
		var lens []int
		if !curTrivial && p.CodeShape == "deep" && r.Intn(4) > 0 {
			// pad the code with symbols that never occur until 15-bit codewords are possible
			want := minI(alphabet, 17+r.Intn(12))
			for len(k) < want {
				s := r.Intn(alphabet)
				if !m[s] {
					m[s] = true
					k = append(k, s)
				}
			}
			sort.Ints(k)
			lens = completeLensShape(r, alphabet, k, 15, "deep", occurring)
			g.stat["deepcode"]++
		} else if len(k) == 2 && (p.CodeStyle == "simple" || r.Intn(2) == 0) {
			lens = make([]int, alphabet)
			lens[k[0]], lens[k[1]] = 1, 1
		} else {
			lens = completeLensShape(r, alphabet, k, 15, p.CodeShape, nil)
		}
		g.writeCode(lens, p.CodeStyle)
		return buildCode(lens)
	}
	for i := range cs {
		_, curTrivial = trivial[i]
		cs[i].g = mk(us[i].g, 256+24+cacheSize)
		cs[i].rr = mk(us[i].rr, 256)
		cs[i].b = mk(us[i].b, 256)
		cs[i].a = mk(us[i].a, 256)
		cs[i].d = mk(us[i].d, 40)
	}
	// pixel symbols
	for i, a := range plan {
		c := &cs[groupOf(planPos[i])]
		switch a.kind {
		case 0:
			w.sym(c.g, int(a.argb>>8)&0xff)
			w.sym(c.rr, int(a.argb>>16)&0xff)
			w.sym(c.b, int(a.argb)&0xff)
			w.sym(c.a, int(a.argb>>24)&0xff)
		case 1:
			ls, le, ln := prefixEncode(a.length)
			w.sym(c.g, 256+ls)
			w.put(uint32(le), ln)
			ds, de, dn := prefixEncode(a.dcode)
			w.sym(c.d, ds)
			w.put(uint32(de), dn)
		case 2:
			w.sym(c.g, 256+24+a.cidx)
		}
	}
}

// Build returns the raw VP8L bitstream and generation statistics.
func (p *VP8LProg) Build() ([]byte, map[string]int) {
	g := &vp8lW{w: &bitW{}, r: NewRng(p.Seed), p: p, stat: map[string]int{}}
	w, r := g.w, g.r
	w.put(0x2f, 8)
	w.put(uint32(p.W-1), 14)
	w.put(uint32(p.H-1), 14)
	if p.Alpha {
		w.put(1, 1)
	} else {
		w.put(0, 1)
	}
	w.put(0, 3)
	xsize := p.W
	spread := func() uint32 {
		n := p.LitSpread
		v := func() uint32 { return uint32(r.Intn(n) * (255 / maxInt(n-1, 1))) & 0xff }
		if n >= 256 {
			return uint32(r.U64())
		}
		return v()<<24 | v()<<16 | v()<<8 | v()
	}
	palBits := -1
	for _, t := range p.Transforms {
		w.put(1, 1)
		w.put(uint32(t.Type), 2)
		switch t.Type {
		case 0, 1:
			w.put(uint32(t.Bits-2), 3)
			bw := (xsize + (1 << uint(t.Bits)) - 1) >> uint(t.Bits)
			bh := (p.H + (1 << uint(t.Bits)) - 1) >> uint(t.Bits)
			ty := t
			g.writeImageStream(bw, bh, false, false, func(int) uint32 {
				if ty.Type == 0 {
					m := r.Intn(14)
					if ty.Mode1415 && r.Intn(4) == 0 {
						m = 14 + r.Intn(2)
					}
					return 0xff000000 | uint32(r.Intn(256))<<16 | uint32(m)<<8 | uint32(r.Intn(256))
				}
				return uint32(r.U64()) | 0xff000000
			})
		case 3:
			w.put(uint32(t.NPal-1), 8)
			g.writeImageStream(t.NPal, 1, false, false, func(int) uint32 { return uint32(r.U64()) })
			switch {
			case t.NPal <= 2:
				palBits = 3
			case t.NPal <= 4:
				palBits = 2
			case t.NPal <= 16:
				palBits = 1
			default:
				palBits = 0
			}
			xsize = (xsize + (1 << uint(palBits)) - 1) >> uint(palBits)
			g.stat["palette"]++
		}
	}
	w.put(0, 1) // no more transforms
	g.writeImageStream(xsize, p.H, true, false, func(int) uint32 { return spread() })
	return w.bytes(), g.stat
}
