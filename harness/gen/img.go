// Package gen holds the shared generators: pictures, encoder options, byte mutations.
package gen

import (
	"fmt"
	"image"
	"image/color"

	"pgregory.net/rapid"
)

// Rng is a small deterministic PRNG (splitmix64). Its seed is always drawn through rapid and
// recorded in the case, so a case is a pure function of the drawn values.
type Rng struct{ s uint64 }

func NewRng(seed uint64) *Rng { return &Rng{s: seed ^ 0x9e3779b97f4a7c15} }
func (r *Rng) U64() uint64 {
	r.s += 0x9e3779b97f4a7c15
	z := r.s
	z = (z ^ (z >> 30)) * 0xbf58476d1ce4e5b9
	z = (z ^ (z >> 27)) * 0x94d049bb133111eb
	return z ^ (z >> 31)
}
func (r *Rng) Intn(n int) int { return int(r.U64() % uint64(n)) }
func (r *Rng) Byte() byte     { return byte(r.U64()) }

// Img is a concrete, self-contained picture case. Pix holds the intended non-premultiplied
// pixels (W*H*4). Kind/Place say how they are presented to the encoder.
type Img struct {
	W, H    int
	Pix     []byte // NRGBA, tight
	Kind    string // nrgba rgba nrgba64 rgba64 gray gray16 paletted ycbcr444 ycbcr420 cmyk alpha generic
	Place   string // tight sub minoff stride
	OX, OY  int    // origin offset for sub/minoff
	PadR    int    // extra pixels right (sub: parent wider; stride: padding)
	PadB    int    // extra rows below (sub)
	PadBytes int   // stride placement: extra bytes per row beyond whole pixels (strides that are not a multiple of 4 are legal)
	Garbage uint64 // seed for bytes outside the picture
	Content string // class label (informational)
	Alpha   string // class label (informational)
	Colors  int    // number of distinct intended pixels (capped at 300)

	backing []byte // whole backing buffer (parent included) of the last Build, nrgba/rgba kinds
}

// Backing returns the entire backing buffer of the image returned by the last Build call
// (nil for kinds other than nrgba/rgba).
func (s *Img) Backing() []byte { return s.backing }

func (s *Img) String() string {
	return fmt.Sprintf("%dx%d %s/%s %s/%s colors=%d", s.W, s.H, s.Kind, s.Place, s.Content, s.Alpha, s.Colors)
}

// Summary is the JSON-friendly short description used in evidence samples.
func (s *Img) Summary() map[string]any {
	return map[string]any{"w": s.W, "h": s.H, "kind": s.Kind, "place": s.Place, "content": s.Content, "alpha": s.Alpha, "colors": s.Colors}
}

// Generic is an image type unknown to the package: forces the img.At path.
type Generic struct {
	R image.Rectangle
	P []color.NRGBA
}

func (g *Generic) ColorModel() color.Model { return color.NRGBAModel }
func (g *Generic) Bounds() image.Rectangle { return g.R }
func (g *Generic) At(x, y int) color.Color {
	if !(image.Point{x, y}.In(g.R)) {
		return color.NRGBA{}
	}
	return g.P[(y-g.R.Min.Y)*g.R.Dx()+(x-g.R.Min.X)]
}

func (s *Img) at(x, y int) color.NRGBA {
	i := (y*s.W + x) * 4
	return color.NRGBA{s.Pix[i], s.Pix[i+1], s.Pix[i+2], s.Pix[i+3]}
}

// Build constructs the Go image. For kinds that cannot represent the intended pixels exactly
// the picture is whatever the constructed image's At reports (see Truth).
func (s *Img) Build() image.Image {
	g := NewRng(s.Garbage)
	ox, oy := 0, 0
	pw, ph := s.W, s.H // parent size
	switch s.Place {
	case "sub":
		ox, oy = s.OX, s.OY
		pw, ph = s.OX+s.W+s.PadR, s.OY+s.H+s.PadB
	case "minoff":
		ox, oy = s.OX, s.OY
	}
	rect := image.Rect(ox, oy, ox+s.W, oy+s.H)
	switch s.Kind {
	case "nrgba", "rgba":
		var pix []byte
		var stride int
		var full image.Rectangle
		switch s.Place {
		case "sub":
			full = image.Rect(0, 0, pw, ph)
			stride = pw * 4
		case "stride":
			full = rect
			stride = (s.W+s.PadR)*4 + s.PadBytes
		default:
			full = rect
			stride = s.W * 4
		}
		if s.Place == "stride" {
			pix = make([]byte, stride*s.H)
		} else {
			pix = make([]byte, stride*full.Dy())
		}
		for i := range pix {
			pix[i] = g.Byte()
		}
		off := func(x, y int) int {
			if s.Place == "sub" {
				return (oy+y)*stride + (ox+x)*4
			}
			return y*stride + x*4
		}
		for y := 0; y < s.H; y++ {
			for x := 0; x < s.W; x++ {
				c := s.at(x, y)
				o := off(x, y)
				if s.Kind == "rgba" {
					// premultiply exactly as color.RGBAModel does
					r, gg, b, a := c.RGBA()
					pix[o], pix[o+1], pix[o+2], pix[o+3] = uint8(r>>8), uint8(gg>>8), uint8(b>>8), uint8(a>>8)
				} else {
					pix[o], pix[o+1], pix[o+2], pix[o+3] = c.R, c.G, c.B, c.A
				}
			}
		}
		s.backing = pix
		if s.Kind == "rgba" {
			// garbage outside the picture must still be valid premultiplied data? It is never
			// read as a pixel of the picture, so arbitrary bytes are fine.
			im := &image.RGBA{Pix: pix, Stride: stride, Rect: full}
			if s.Place == "sub" {
				return im.SubImage(rect)
			}
			return im
		}
		im := &image.NRGBA{Pix: pix, Stride: stride, Rect: full}
		if s.Place == "sub" {
			return im.SubImage(rect)
		}
		return im
	case "generic":
		p := make([]color.NRGBA, s.W*s.H)
		for y := 0; y < s.H; y++ {
			for x := 0; x < s.W; x++ {
				p[y*s.W+x] = s.at(x, y)
			}
		}
		return &Generic{R: rect, P: p}
	}
	// remaining kinds: built through the standard Set methods on a parent, then sub-imaged
	type setter interface {
		image.Image
		Set(x, y int, c color.Color)
	}
	full := rect
	if s.Place == "sub" {
		full = image.Rect(0, 0, pw, ph)
	}
	var dst setter
	switch s.Kind {
	case "nrgba64":
		dst = image.NewNRGBA64(full)
	case "rgba64":
		dst = image.NewRGBA64(full)
	case "gray":
		dst = image.NewGray(full)
	case "gray16":
		dst = image.NewGray16(full)
	case "cmyk":
		dst = image.NewCMYK(full)
	case "alpha":
		dst = image.NewAlpha(full)
	case "paletted":
		// palette = first up-to-256 distinct intended colours
		var pal color.Palette
		seen := map[color.NRGBA]bool{}
		for i := 0; i+3 < len(s.Pix) && len(pal) < 256; i += 4 {
			c := color.NRGBA{s.Pix[i], s.Pix[i+1], s.Pix[i+2], s.Pix[i+3]}
			if !seen[c] {
				seen[c] = true
				pal = append(pal, c)
			}
		}
		dst = image.NewPaletted(full, pal)
	case "ycbcr444", "ycbcr420", "ycbcr422", "ycbcr440", "ycbcr411", "ycbcr410":
		ratio := map[string]image.YCbCrSubsampleRatio{"ycbcr444": image.YCbCrSubsampleRatio444, "ycbcr420": image.YCbCrSubsampleRatio420, "ycbcr422": image.YCbCrSubsampleRatio422,
			"ycbcr440": image.YCbCrSubsampleRatio440, "ycbcr411": image.YCbCrSubsampleRatio411, "ycbcr410": image.YCbCrSubsampleRatio410}[s.Kind]
		im := image.NewYCbCr(full, ratio)
		for y := 0; y < s.H; y++ {
			for x := 0; x < s.W; x++ {
				c := s.at(x, y)
				yy, cb, cr := color.RGBToYCbCr(c.R, c.G, c.B)
				im.Y[im.YOffset(ox+x, oy+y)] = yy
				im.Cb[im.COffset(ox+x, oy+y)] = cb
				im.Cr[im.COffset(ox+x, oy+y)] = cr
			}
		}
		if s.Place == "sub" {
			return im.SubImage(rect)
		}
		return im
	default:
		panic("unknown kind " + s.Kind)
	}
	if s.Place == "sub" {
		// garbage in the parent
		for y := full.Min.Y; y < full.Max.Y; y++ {
			for x := full.Min.X; x < full.Max.X; x++ {
				dst.Set(x, y, color.NRGBA{g.Byte(), g.Byte(), g.Byte(), g.Byte()})
			}
		}
	}
	for y := 0; y < s.H; y++ {
		for x := 0; x < s.W; x++ {
			dst.Set(ox+x, oy+y, s.at(x, y))
		}
	}
	if s.Place == "sub" {
		return dst.(interface {
			SubImage(image.Rectangle) image.Image
		}).SubImage(rect)
	}
	return dst
}

// Truth returns the picture as non-premultiplied 8-bit RGBA, read through the public
// image.Image interface (the property's definition of "the source pixel").
func Truth(img image.Image) []color.NRGBA {
	b := img.Bounds()
	out := make([]color.NRGBA, 0, b.Dx()*b.Dy())
	for y := b.Min.Y; y < b.Max.Y; y++ {
		for x := b.Min.X; x < b.Max.X; x++ {
			out = append(out, color.NRGBAModel.Convert(img.At(x, y)).(color.NRGBA))
		}
	}
	return out
}

var allKinds = []string{"nrgba", "rgba", "nrgba64", "rgba64", "gray", "gray16", "paletted", "ycbcr444", "ycbcr420", "cmyk", "alpha", "generic"}

// StdKinds are the standard-library image types other than NRGBA/RGBA (C19: each is "an image.Image
// yielding colours"), including the chroma-subsampled layouts whose sample sharing is anchored to
// absolute coordinates.
var StdKinds = []string{"nrgba64", "rgba64", "gray", "gray16", "paletted", "cmyk", "alpha", "ycbcr444", "ycbcr420", "ycbcr420", "ycbcr422", "ycbcr440", "ycbcr411", "ycbcr410"}
var allPlaces = []string{"tight", "sub", "minoff", "stride"}

// ImgCfg parameterises DrawImg.
type ImgCfg struct {
	MaxSide   int      // largest ordinary side
	BigChance int      // percent chance of a "medium" picture up to BigSide
	BigSide   int
	Kinds     []string // nil = all
	Places    []string // nil = all
	Alphas    []string // nil = all alpha classes
	MinSide   int
	ThinPermille int // chance (per 1000) of a very wide or very tall thin picture (one side up to 16383)
	LargePermille int // chance (per 1000) of a picture of 100,000-330,000 pixels (above every parallel-path threshold of the lossless codec)
}

var sizeBoundaries = []int{1, 2, 3, 7, 8, 9, 15, 16, 17, 31, 32, 33, 47, 48, 49, 63, 64, 65}

func drawSide(t *rapid.T, cfg *ImgCfg, name string) int {
	min := cfg.MinSide
	if min < 1 {
		min = 1
	}
	var v int
	switch rapid.IntRange(0, 9).Draw(t, name+"Class") {
	case 0, 1:
		v = rapid.IntRange(1, 8).Draw(t, name)
	case 2, 3, 4:
		v = rapid.SampledFrom(sizeBoundaries).Draw(t, name)
	default:
		v = rapid.IntRange(1, cfg.MaxSide).Draw(t, name)
	}
	if v > cfg.MaxSide {
		v = cfg.MaxSide
	}
	if v < min {
		v = min
	}
	return v
}

var contentClasses = []string{"flat", "pal2", "pal4", "pal16", "pal256", "gradient", "photo", "noise", "tiled", "sparse", "regions", "bands", "drawn", "outlier", "dyadic", "lenfib", "letterbox", "patches"}
var alphaClasses = []string{"opaque", "opaque", "binary", "levels", "gradient", "noise", "transparent", "transp-colored", "semi-flat", "late", "early", "holes"}

// DrawImg draws a picture case.
func DrawImg(t *rapid.T, cfg ImgCfg) *Img {
	s := &Img{}
	s.W = drawSide(t, &cfg, "w")
	s.H = drawSide(t, &cfg, "h")
	if cfg.BigChance > 0 && rapid.IntRange(0, 99).Draw(t, "big") < cfg.BigChance {
		s.W = rapid.IntRange(cfg.MaxSide, cfg.BigSide).Draw(t, "bigW")
		s.H = rapid.IntRange(cfg.MaxSide/2+1, cfg.BigSide).Draw(t, "bigH")
	}
	if cfg.ThinPermille > 0 && func() bool { v := rapid.IntRange(0, 999).Draw(t, "thin"); return v >= 400 && v < 400+cfg.ThinPermille }() {
		long := rapid.SampledFrom([]int{2047, 2048, 2049, 2304, 4096, 4097, 8193, 16383}).Draw(t, "thinLong")
		short := rapid.IntRange(1, 4).Draw(t, "thinShort")
		if rapid.Bool().Draw(t, "thinTall") {
			s.W, s.H = short, long
		} else {
			s.W, s.H = long, short
		}
	}
	if cfg.LargePermille > 0 && func() bool { v := rapid.IntRange(0, 999).Draw(t, "large"); return v >= 700 && v < 700+cfg.LargePermille }() {
		s.W = rapid.IntRange(260, 820).Draw(t, "largeW")
		area := rapid.IntRange(100000, 330000).Draw(t, "largeArea")
		s.H = (area + s.W - 1) / s.W
	}
	kinds, places, alphas := cfg.Kinds, cfg.Places, cfg.Alphas
	if kinds == nil {
		// half of the cases NRGBA (the fast path most users hit), the rest spread
		if rapid.Bool().Draw(t, "kindNRGBA") {
			kinds = []string{"nrgba"}
		} else {
			kinds = allKinds
		}
	}
	if places == nil {
		places = allPlaces
	}
	if alphas == nil {
		alphas = alphaClasses
	}
	s.Kind = rapid.SampledFrom(kinds).Draw(t, "kind")
	s.Place = rapid.SampledFrom(places).Draw(t, "place")
	if s.Place == "stride" && s.Kind != "nrgba" && s.Kind != "rgba" {
		s.Place = "tight"
	}
	if s.Place == "sub" || s.Place == "minoff" {
		s.OX = rapid.IntRange(0, 9).Draw(t, "ox")
		s.OY = rapid.IntRange(0, 9).Draw(t, "oy")
		if s.Kind == "ycbcr420" {
			s.OX &^= 1 // keep chroma siting of the intended pixels simple
			s.OY &^= 1
		}
	}
	if s.Place == "sub" || s.Place == "stride" {
		s.PadR = rapid.IntRange(0, 5).Draw(t, "padR")
		s.PadB = rapid.IntRange(0, 5).Draw(t, "padB")
	}
	if s.Place == "stride" {
		s.PadBytes = rapid.SampledFrom([]int{0, 0, 0, 1, 2, 3, 5, 6, 13}).Draw(t, "padBytes")
	}
	s.Garbage = rapid.Uint64().Draw(t, "garbage")
	s.Content = rapid.SampledFrom(contentClasses).Draw(t, "content")
	s.Alpha = rapid.SampledFrom(alphas).Draw(t, "alpha")
	if s.Content != "drawn" {
		s.Content += rapid.SampledFrom([]string{"", "", "", "", "", "", "", "", "", "", "", "+grey", "+grey", "+g", "+rb"}).Draw(t, "tint")
	}
	seed := rapid.Uint64().Draw(t, "contentSeed")
	if s.Content == "drawn" {
		if s.W*s.H > 64 {
			s.Content = "pal4"
		} else {
			// tiny pictures drawn pixel by pixel from a small alphabet: fully shrinkable
			vals := []byte{0, 1, 127, 128, 254, 255}
			s.Pix = make([]byte, s.W*s.H*4)
			for i := range s.Pix {
				s.Pix[i] = rapid.SampledFrom(vals).Draw(t, "px")
			}
			if s.Alpha == "opaque" {
				for i := 3; i < len(s.Pix); i += 4 {
					s.Pix[i] = 255
				}
			}
			s.countColors()
			return s
		}
	}
	s.Pix = RenderContent(s.W, s.H, s.Content, s.Alpha, seed)
	s.countColors()
	return s
}

// Recount refreshes Colors after Pix was replaced.
func (s *Img) Recount() { s.countColors() }

func (s *Img) countColors() {
	seen := map[[4]byte]struct{}{}
	for i := 0; i+3 < len(s.Pix) && len(seen) < 300; i += 4 {
		seen[[4]byte{s.Pix[i], s.Pix[i+1], s.Pix[i+2], s.Pix[i+3]}] = struct{}{}
	}
	s.Colors = len(seen)
}

// ColorClass buckets the number of colours the way the lossless encoder's palette logic does.
func (s *Img) ColorClass() string {
	switch c := s.Colors; {
	case c <= 1:
		return "1"
	case c == 2:
		return "2"
	case c <= 4:
		return "3-4"
	case c <= 16:
		return "5-16"
	case c <= 256:
		return "17-256"
	default:
		return "257+"
	}
}

// SizeClass buckets the picture area.
func (s *Img) SizeClass() string {
	switch a := s.W * s.H; {
	case a <= 64:
		return "tiny"
	case a <= 1024:
		return "small"
	case a <= 16384:
		return "medium"
	case a < 100000:
		return "large"
	default:
		return "huge(>=100000px)"
	}
}

// RenderContent renders w*h NRGBA pixels of the given content and alpha class.
// RenderContent renders a content class, optionally followed by a channel relation ("photo+grey": R=G=B everywhere;
// "+g": only green carries information; "+rb": red equals blue): greyscale and single-channel pictures are common and
// make the codecs' colour-decorrelation steps (subtract-green, cross-colour, chroma) degenerate.
func RenderContent(w, h int, content, alpha string, seed uint64) []byte {
	base, tint := content, ""
	for i := 0; i < len(content); i++ {
		if content[i] == '+' {
			base, tint = content[:i], content[i+1:]
			break
		}
	}
	pix := renderContent(w, h, base, alpha, seed)
	for i := 0; i+3 < len(pix); i += 4 {
		switch tint {
		case "grey":
			pix[i], pix[i+2] = pix[i+1], pix[i+1]
		case "g":
			pix[i], pix[i+2] = 0, 0
		case "rb":
			pix[i+2] = pix[i]
		}
	}
	return pix
}

func renderContent(w, h int, content, alpha string, seed uint64) []byte {
	r := NewRng(seed)
	pix := make([]byte, w*h*4)
	palette := func(n int) [][3]byte {
		p := make([][3]byte, n)
		for i := range p {
			p[i] = [3]byte{r.Byte(), r.Byte(), r.Byte()}
		}
		return p
	}
	set := func(x, y int, c [3]byte) {
		i := (y*w + x) * 4
		pix[i], pix[i+1], pix[i+2] = c[0], c[1], c[2]
	}
	switch content {
	case "flat":
		c := [3]byte{r.Byte(), r.Byte(), r.Byte()}
		for y := 0; y < h; y++ {
			for x := 0; x < w; x++ {
				set(x, y, c)
			}
		}
	case "pal2", "pal4", "pal16", "pal256":
		n := map[string]int{"pal2": 2, "pal4": 3 + r.Intn(2), "pal16": 5 + r.Intn(12), "pal256": 17 + r.Intn(240)}[content]
		p := palette(n)
		mode := r.Intn(3)
		run := 1 + r.Intn(9)
		for y := 0; y < h; y++ {
			for x := 0; x < w; x++ {
				var k int
				switch mode {
				case 0: // noise over the palette
					k = r.Intn(n)
				case 1: // runs
					k = ((x + y*w) / run) % n
					if r.Intn(16) == 0 {
						k = r.Intn(n)
					}
				default: // blocks
					k = ((x/run)*7 + (y/run)*13) % n
				}
				set(x, y, p[k])
			}
		}
	case "gradient", "photo":
		a0, a1, a2 := r.Intn(4)+1, r.Intn(4)+1, r.Intn(4)
		b0, b1, b2 := r.Intn(256), r.Intn(256), r.Intn(256)
		amp := 0
		if content == "photo" {
			amp = 4 + r.Intn(28)
		}
		for y := 0; y < h; y++ {
			for x := 0; x < w; x++ {
				n := func() int {
					if amp == 0 {
						return 0
					}
					return r.Intn(2*amp+1) - amp
				}
				cl := func(v int) byte {
					if v < 0 {
						return 0
					}
					if v > 255 {
						return 255
					}
					return byte(v)
				}
				set(x, y, [3]byte{cl((b0+x*a0+y*a2)%256 + n()), cl((b1+y*a1)%256 + n()), cl((b2+(x+y)*a2)%256 + n())})
			}
		}
	case "noise":
		for i := 0; i < w*h; i++ {
			pix[i*4], pix[i*4+1], pix[i*4+2] = r.Byte(), r.Byte(), r.Byte()
		}
	case "tiled":
		tw, th := 1+r.Intn(13), 1+r.Intn(13)
		tile := make([][3]byte, tw*th)
		for i := range tile {
			tile[i] = [3]byte{r.Byte(), r.Byte(), r.Byte()}
		}
		for y := 0; y < h; y++ {
			for x := 0; x < w; x++ {
				set(x, y, tile[(y%th)*tw+(x%tw)])
			}
		}
	case "sparse":
		c := [3]byte{r.Byte(), r.Byte(), r.Byte()}
		for y := 0; y < h; y++ {
			for x := 0; x < w; x++ {
				if r.Intn(23) == 0 {
					set(x, y, [3]byte{r.Byte(), r.Byte(), r.Byte()})
				} else {
					set(x, y, c)
				}
			}
		}
	case "patches":
		// flat ground with 1-3 small textured patches (8-40 px) whose positions favour the first macroblocks, the
		// last ones, or anywhere: at low quality everything but the patches is skipped, so long runs of skipped
		// macroblocks fall before, between or after the few macroblocks that carry coefficients
		c := [3]byte{r.Byte(), r.Byte(), r.Byte()}
		for y := 0; y < h; y++ {
			for x := 0; x < w; x++ {
				set(x, y, c)
			}
		}
		n := 1 + r.Intn(3)
		if r.Intn(8) == 0 {
			n = 0
		}
		for k := 0; k < n; k++ {
			pw, ph := 8+r.Intn(33), 8+r.Intn(33)
			var px, py int
			switch r.Intn(4) {
			case 0: // top-left: the first macroblocks
				px, py = r.Intn(8), r.Intn(8)
			case 1: // bottom-right: the last macroblocks
				px, py = w-pw-r.Intn(8), h-ph-r.Intn(8)
			default:
				px, py = r.Intn(w), r.Intn(h)
			}
			amp := 20 + r.Intn(200)
			for y := maxInt(py, 0); y < minInt(py+ph, h); y++ {
				for x := maxInt(px, 0); x < minInt(px+pw, w); x++ {
					var q [3]byte
					for j := 0; j < 3; j++ {
						v := int(c[j]) + r.Intn(2*amp+1) - amp
						if v < 0 {
							v = 0
						}
						if v > 255 {
							v = 255
						}
						q[j] = byte(v)
					}
					set(x, y, q)
				}
			}
		}
	case "outlier":
		// one texture everywhere except for 1-3 small blocks of another nature (a flat or a gradient
		// patch): analysis passes that cluster blocks meet a class with a handful of members
		base := [3]byte{r.Byte(), r.Byte(), r.Byte()}
		amp := 8 + r.Intn(90)
		for y := 0; y < h; y++ {
			for x := 0; x < w; x++ {
				var c [3]byte
				for k := 0; k < 3; k++ {
					v := int(base[k]) + r.Intn(2*amp+1) - amp
					if v < 0 {
						v = 0
					}
					if v > 255 {
						v = 255
					}
					c[k] = byte(v)
				}
				set(x, y, c)
			}
		}
		nOut := 1
		if r.Intn(3) == 0 {
			nOut = 1 + r.Intn(3)
		}
		for n := nOut; n > 0; n-- {
			bw, bh := 16, 16
			if r.Intn(3) == 0 {
				bw, bh = 16*(1+r.Intn(2)), 16*(1+r.Intn(2))
			}
			bx, by := 16*r.Intn((w+15)/16), 16*r.Intn((h+15)/16)
			if r.Intn(3) == 0 { // on the picture border (map smoothing leaves border blocks alone)
				if r.Intn(2) == 0 {
					bx = 0
				} else {
					by = 0
				}
			}
			if r.Intn(4) == 0 { // not aligned to the macroblock grid
				bx += r.Intn(16)
				by += r.Intn(16)
			}
			c := [3]byte{r.Byte(), r.Byte(), r.Byte()}
			grad := r.Intn(2) == 0
			for y := by; y < by+bh && y < h; y++ {
				for x := bx; x < bx+bw && x < w; x++ {
					cc := c
					if grad {
						cc[0] = byte(int(c[0]) + (x-bx)*2)
					}
					set(x, y, cc)
				}
			}
		}
	case "bands":
		// horizontal bands: flat, noisy, or an exact repeat of an earlier band (long backward
		// matches reaching the length cap; empty histogram tiles inside flat runs)
		type band struct{ y0, h int }
		var bands []band
		for y := 0; y < h; {
			bh := 4 + r.Intn(40)
			if y+bh > h {
				bh = h - y
			}
			switch k := r.Intn(4); {
			case k == 0 && len(bands) > 0: // repeat an earlier band row by row
				src := bands[r.Intn(len(bands))]
				for j := 0; j < bh; j++ {
					sy := src.y0 + j%src.h
					copy(pix[(y+j)*w*4:(y+j+1)*w*4], pix[sy*w*4:(sy+1)*w*4])
				}
			case k == 1: // noise
				for j := 0; j < bh; j++ {
					for x := 0; x < w; x++ {
						set(x, y+j, [3]byte{r.Byte(), r.Byte(), r.Byte()})
					}
				}
			case k == 2: // identical textured rows
				row := make([][3]byte, w)
				for x := range row {
					row[x] = [3]byte{r.Byte(), r.Byte(), r.Byte()}
				}
				for j := 0; j < bh; j++ {
					for x := 0; x < w; x++ {
						set(x, y+j, row[x])
					}
				}
			default: // flat
				c := [3]byte{r.Byte(), r.Byte(), r.Byte()}
				for j := 0; j < bh; j++ {
					for x := 0; x < w; x++ {
						set(x, y+j, c)
					}
				}
			}
			bands = append(bands, band{y, bh})
			y += bh
		}
	case "regions":
		// a collage: rectangles of different textures, cut preferably on multiples of 8/16/32
		sub := []string{"flat", "flat", "noise", "gradient", "tiled", "pal4", "photo", "sparse"}
		var fill func(x0, y0, x1, y1, depth int)
		fill = func(x0, y0, x1, y1, depth int) {
			ww, hh := x1-x0, y1-y0
			if depth == 0 || (ww < 4 && hh < 4) || r.Intn(5) == 0 {
				part := RenderContent(ww, hh, sub[r.Intn(len(sub))], "opaque", r.U64())
				for y := 0; y < hh; y++ {
					copy(pix[((y0+y)*w+x0)*4:((y0+y)*w+x0+ww)*4], part[y*ww*4:(y+1)*ww*4])
				}
				return
			}
			cut := func(lo, hi int) int {
				c := lo + 1 + r.Intn(hi-lo-1)
				for _, g := range []int{32, 16, 8} {
					if r.Intn(2) == 0 {
						if cc := (c + g/2) / g * g; cc > lo && cc < hi {
							return cc
						}
					}
				}
				return c
			}
			if (ww >= hh && ww >= 2) || hh < 2 {
				c := cut(x0, x1)
				fill(x0, y0, c, y1, depth-1)
				fill(c, y0, x1, y1, depth-1)
			} else {
				c := cut(y0, y1)
				fill(x0, y0, x1, c, depth-1)
				fill(x0, c, x1, y1, depth-1)
			}
		}
		if w < 2 && h < 2 {
			pix[0], pix[1], pix[2] = r.Byte(), r.Byte(), r.Byte()
		} else {
			fill(0, 0, w, h, 1+r.Intn(3))
		}
	case "letterbox":
		// a textured picture with flat bars (top, bottom, left or right; 20-60 % of the side): long runs of
		// skipped macroblocks at the start or at the end of the raster scan, next to busy ones
		bar := [3]byte{r.Byte(), r.Byte(), r.Byte()}
		fw, fh := 20+r.Intn(41), 20+r.Intn(41)
		where := r.Intn(6) // 0 bottom, 1 top, 2 both, 3 right, 4 left, 5 bottom (again: the common case)
		smooth := r.Intn(2) == 0
		for y := 0; y < h; y++ {
			for x := 0; x < w; x++ {
				inBar := false
				switch where {
				case 0, 5:
					inBar = y >= h-h*fh/100
				case 1:
					inBar = y < h*fh/100
				case 2:
					inBar = y < h*fh/200 || y >= h-h*fh/200
				case 3:
					inBar = x >= w-w*fw/100
				case 4:
					inBar = x < w*fw/100
				}
				if inBar {
					set(x, y, bar)
				} else if smooth {
					set(x, y, [3]byte{byte(x*3 + y), byte(y*5 + r.Intn(24)), byte(x ^ y)})
				} else {
					set(x, y, [3]byte{r.Byte(), r.Byte(), r.Byte()})
				}
			}
		}
	case "dyadic", "lenfib":
		// Huffman stress. Per channel a table of symbol weights is built and every pixel draws from it
		// independently (no spatial structure, so the entropy coder sees exactly these statistics).
		// dyadic: weights 1/2, 1/4, 1/8, ... (or golden-ratio decay) over a random permutation of the
		// byte values: optimal codes want depths beyond the format's 15-bit limit. lenfib: the NUMBER of
		// symbols wanting length L grows like the Fibonacci numbers, which skews the histogram of code
		// lengths itself and stresses the 7-bit limit of the code-length code.
		type tab struct {
			sym []byte
			cum []uint64
		}
		mk := func() tab {
			perm := make([]byte, 256)
			for i := range perm {
				perm[i] = byte(i)
			}
			for i := 255; i > 0; i-- {
				j := r.Intn(i + 1)
				perm[i], perm[j] = perm[j], perm[i]
			}
			var t tab
			var acc uint64
			if content == "dyadic" {
				n := 8 + r.Intn(40)
				golden := r.Intn(2) == 0
				wgt := uint64(1) << 40
				for i := 0; i < n && wgt > 0; i++ {
					acc += wgt
					t.sym = append(t.sym, perm[i])
					t.cum = append(t.cum, acc)
					if golden {
						wgt = wgt * 618 / 1000
					} else {
						wgt >>= 1
					}
				}
			} else {
				start := 2 + r.Intn(4)
				fa, fb := uint64(1), uint64(1)
				k := 0
				for L := start; L < 24 && k < 256; L++ {
					cnt := int(fa)
					fa, fb = fb, fa+fb
					for c := 0; c < cnt && k < 256; c++ {
						acc += uint64(1) << uint(40-L)
						t.sym = append(t.sym, perm[k])
						t.cum = append(t.cum, acc)
						k++
					}
				}
			}
			return t
		}
		tabs := [3]tab{mk(), mk(), mk()}
		if r.Intn(3) == 0 {
			tabs[1] = tab{sym: []byte{r.Byte()}, cum: []uint64{1}} // only red/blue carry the statistics
		}
		draw := func(t *tab) byte {
			v := r.U64() % t.cum[len(t.cum)-1]
			lo, hi := 0, len(t.cum)-1
			for lo < hi {
				m := (lo + hi) / 2
				if t.cum[m] > v {
					hi = m
				} else {
					lo = m + 1
				}
			}
			return t.sym[lo]
		}
		for i := 0; i < w*h; i++ {
			pix[i*4], pix[i*4+1], pix[i*4+2] = draw(&tabs[0]), draw(&tabs[1]), draw(&tabs[2])
		}
	default:
		panic("content " + content)
	}
	// alpha
	levels := []byte{0, 255}
	if alpha == "levels" {
		n := 2 + r.Intn(15)
		levels = make([]byte, n)
		for i := range levels {
			levels[i] = r.Byte()
		}
	}
	semi := byte(1 + r.Intn(254))
	lateN := 1 + r.Intn(maxInt(1, minInt(w, 9)))
	lateA := byte(r.Intn(255))
	blk := 1 + r.Intn(6)
	// holes: 1-3 fully transparent rectangles (each up to 3/4 of a side, so whole 8x8 blocks lie
	// inside) whose pixels KEEP their colours; everything else opaque
	type hole struct{ x0, y0, x1, y1 int }
	var holes []hole
	if alpha == "holes" {
		for k := 1 + r.Intn(3); k > 0; k-- {
			hw, hh := 1+r.Intn(maxInt(1, w*3/4)), 1+r.Intn(maxInt(1, h*3/4))
			x0, y0 := r.Intn(w-hw+1), r.Intn(h-hh+1)
			holes = append(holes, hole{x0, y0, x0 + hw, y0 + hh})
		}
	}
	for y := 0; y < h; y++ {
		for x := 0; x < w; x++ {
			i := (y*w+x)*4 + 3
			switch alpha {
			case "holes":
				pix[i] = 255
				for _, q := range holes {
					if x >= q.x0 && x < q.x1 && y >= q.y0 && y < q.y1 {
						pix[i] = 0
					}
				}
			case "opaque":
				pix[i] = 255
			case "binary":
				if ((x/blk)+(y/blk))%2 == 0 || r.Intn(9) == 0 {
					pix[i] = 255
				} else {
					pix[i] = 0
				}
			case "levels":
				pix[i] = levels[((x/blk)+(y/blk)*3+r.Intn(2))%len(levels)]
			case "gradient":
				pix[i] = byte((x*255/maxInt(w-1, 1) + y*255/maxInt(h-1, 1)) / 2)
			case "noise":
				pix[i] = r.Byte()
			case "transparent":
				pix[i] = 0
				pix[i-3], pix[i-2], pix[i-1] = 0, 0, 0
			case "transp-colored":
				if ((x/blk)+(y/blk))%3 == 0 {
					pix[i] = 0 // keeps its colour: exercises Exact / cleanup
				} else {
					pix[i] = 255
				}
			case "semi-flat":
				pix[i] = semi
			case "late": // opaque except the last few pixels in raster order
				if y*w+x >= w*h-lateN {
					pix[i] = lateA
				} else {
					pix[i] = 255
				}
			case "early": // only the very first pixel is not opaque
				if x == 0 && y == 0 {
					pix[i] = lateA
				} else {
					pix[i] = 255
				}
			default:
				panic("alpha " + alpha)
			}
		}
	}
	return pix
}

func minInt(a, b int) int {
	if a < b {
		return a
	}
	return b
}

func maxInt(a, b int) int {
	if a > b {
		return a
	}
	return b
}

// HasTransparency reports whether any intended pixel is not opaque.
func (s *Img) HasTransparency() bool {
	for i := 3; i < len(s.Pix); i += 4 {
		if s.Pix[i] != 255 {
			return true
		}
	}
	return false
}
