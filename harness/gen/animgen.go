package gen

import (
	"image"

	"pgregory.net/rapid"
)

// AnimSeq is a generated sequence of pictures for the animation encoder.
type AnimSeq struct {
	CW, CH  int
	Frames  []AnimPic
	Kmin    int
	Kmax    int
	Loop    int
	BG      [4]byte // EncodeOptions.BackgroundColor (R,G,B,A): stored in the ANIM chunk; the package documents that playback never paints it
	Alpha   string // content alpha class
	Content string
	Inset   bool // visible pixels in an inner rectangle, fully transparent margins
}

type AnimPic struct {
	W, H  int    // <= canvas; smaller pictures are placed at (0,0) by the encoder
	Pix   []byte // NRGBA
	DurMS int
	Edit  string
	Store string // how the picture is handed to AddFrame: "" / tight | sub | stride | generic (same colours)
	OX, OY int   // origin of the sub-image view
}

// Image returns the picture in the storage layout drawn for it. Every layout yields exactly the
// NRGBA colours in Pix.
func (p *AnimPic) Image() image.Image {
	im := &Img{W: p.W, H: p.H, Kind: "nrgba", Place: "tight", Pix: p.Pix, Garbage: uint64(p.W*131 + p.H*7 + p.OX)}
	switch p.Store {
	case "sub":
		im.Place, im.OX, im.OY, im.PadR, im.PadB = "sub", p.OX, p.OY, 1+p.OX%3, 1+p.OY%2
	case "stride":
		im.Place, im.PadR = "stride", 1+p.OX
	case "generic":
		im.Kind = "generic"
	case "rgba":
		im.Kind = "rgba" // premultiplied storage; only drawn for pictures whose alpha is 0 or 255 everywhere (exact)
	}
	return im.Build()
}

func (s *AnimSeq) Summary() map[string]any {
	var edits []string
	var durs []int
	for _, f := range s.Frames {
		edits = append(edits, f.Edit)
		durs = append(durs, f.DurMS)
	}
	return map[string]any{"canvas": [2]int{s.CW, s.CH}, "frames": len(s.Frames), "edits": edits, "durs": durs, "kmin": s.Kmin, "kmax": s.Kmax, "loop": s.Loop, "alpha": s.Alpha, "content": s.Content, "inset": s.Inset, "bg": s.BG}
}

// DrawAnimSeq draws a frame sequence. minDur: smallest frame duration generated (C18 needs >= 1).
func DrawAnimSeq(t *rapid.T, maxCanvas, maxFrames, minDur int, alphas []string) *AnimSeq {
	s := &AnimSeq{}
	s.CW = rapid.IntRange(1, maxCanvas).Draw(t, "cw")
	s.CH = rapid.IntRange(1, maxCanvas).Draw(t, "ch")
	long := rapid.IntRange(0, 24).Draw(t, "longSeq") == 13 // a long run of tiny pictures: key-frame distances, duration merging
	if long {
		s.CW, s.CH = minI(s.CW, 8), minI(s.CH, 8)
	}
	// rare: a canvas of realistic size (64 px and more per side: size thresholds of the still
	// encoders - near-lossless, histogram tiling, segment analysis, row-parallel paths - sit there)
	big := !long && rapid.IntRange(0, 39).Draw(t, "bigCanvas") == 0
	if big {
		hi := minI(4*maxCanvas, 220)
		if hi < 72 {
			hi = 72
		}
		s.CW, s.CH = rapid.IntRange(64, hi).Draw(t, "bigCW"), rapid.IntRange(64, hi).Draw(t, "bigCH")
	}
	s.Alpha = rapid.SampledFrom(alphas).Draw(t, "animAlpha")
	s.Content = rapid.SampledFrom([]string{"flat", "flat", "pal4", "pal16", "gradient", "photo", "noise", "tiled"}).Draw(t, "animContent")
	seed := rapid.Uint64().Draw(t, "animSeed")
	// inset: pictures whose visible pixels sit in an inner rectangle with fully transparent margins
	// (sprites); the visible box differs from picture to picture. Opaque sequences stay opaque.
	s.Inset = s.Alpha != "opaque" && s.Alpha != "semi-strip" && rapid.IntRange(0, 5).Draw(t, "inset") == 0
	render := func(seed uint64) []byte {
		if s.Inset {
			b := RenderContent(s.CW, s.CH, s.Content, s.Alpha, seed)
			rr := NewRng(seed ^ 0x1257)
			x0, y0 := rr.Intn(s.CW), rr.Intn(s.CH)
			x1, y1 := x0+1+rr.Intn(s.CW-x0), y0+1+rr.Intn(s.CH-y0)
			for y := 0; y < s.CH; y++ {
				for x := 0; x < s.CW; x++ {
					if x < x0 || x >= x1 || y < y0 || y >= y1 {
						o := (y*s.CW + x) * 4
						b[o], b[o+1], b[o+2], b[o+3] = 0, 0, 0, 0
					}
				}
			}
			return b
		}
		if s.Alpha != "semi-strip" {
			return RenderContent(s.CW, s.CH, s.Content, s.Alpha, seed)
		}
		// opaque ground with a short run of translucent pixels
		b := RenderContent(s.CW, s.CH, s.Content, "opaque", seed)
		rr := NewRng(seed ^ 0x77)
		n := 1 + rr.Intn(minI(12, s.CW*s.CH))
		start := rr.Intn(s.CW*s.CH - n + 1)
		for i := start; i < start+n; i++ {
			b[i*4+3] = byte(1 + rr.Intn(254))
		}
		return b
	}
	base := render(seed)
	n := rapid.IntRange(1, maxFrames).Draw(t, "nFrames")
	if long {
		n = rapid.IntRange(15, 60).Draw(t, "nFramesLong")
	}
	if big && n > 4 {
		n = 4
	}
	r := NewRng(seed ^ 0x51)
	cur := append([]byte(nil), base...)
	durCls := rapid.SampledFrom([]string{"small", "small", "small", "zero-mix", "huge", "min"}).Draw(t, "durClass")
	for i := 0; i < n; i++ {
		edit := "first"
		if i == 0 && rapid.IntRange(0, 7).Draw(t, "firstSmaller") == 0 {
			edit = "smaller-image" // the very first picture need not cover the canvas either
		}
		if i > 0 {
			edit = rapid.SampledFrom([]string{"identical", "small-rect", "small-rect", "small-rect", "pixel", "large", "alpha-only", "border", "smaller-image", "new-picture", "repaint-existing", "repaint-flat"}).Draw(t, "edit")
		}
		w, h := s.CW, s.CH
		next := append([]byte(nil), cur...)
		setpx := func(x, y int, c [4]byte) {
			o := (y*s.CW + x) * 4
			copy(next[o:o+4], c[:])
		}
		randColor := func(keepAlpha byte, useKeep bool) [4]byte {
			a := byte(255)
			switch s.Alpha {
			case "binary":
				a = []byte{0, 255}[r.Intn(2)]
			case "opaque", "semi-strip":
				a = 255
			default:
				a = r.Byte()
			}
			if useKeep {
				a = keepAlpha
			}
			return [4]byte{r.Byte(), r.Byte(), r.Byte(), a}
		}
		switch edit {
		case "small-rect", "border":
			rw, rh := 1+r.Intn(minI(4, s.CW)), 1+r.Intn(minI(4, s.CH))
			x0, y0 := r.Intn(s.CW-rw+1), r.Intn(s.CH-rh+1)
			if edit == "border" {
				if r.Intn(2) == 0 {
					x0 = s.CW - rw
				} else {
					y0 = s.CH - rh
				}
			}
			// change only a scattered subset inside the rectangle so that unchanged pixels lie inside the changed bounding box
			c := randColor(0, false)
			for y := y0; y < y0+rh; y++ {
				for x := x0; x < x0+rw; x++ {
					if (x == x0 && y == y0) || (x == x0+rw-1 && y == y0+rh-1) || r.Intn(3) == 0 {
						setpx(x, y, c)
					}
				}
			}
		case "pixel":
			setpx(r.Intn(s.CW), r.Intn(s.CH), randColor(0, false))
		case "large":
			for k := 0; k < s.CW*s.CH; k++ {
				if r.Intn(2) == 0 {
					setpx(k%s.CW, k/s.CW, randColor(0, false))
				}
			}
		case "alpha-only":
			rw, rh := 1+r.Intn(minI(5, s.CW)), 1+r.Intn(minI(5, s.CH))
			x0, y0 := r.Intn(s.CW-rw+1), r.Intn(s.CH-rh+1)
			for y := y0; y < y0+rh; y++ {
				for x := x0; x < x0+rw; x++ {
					o := (y*s.CW + x) * 4
					switch s.Alpha {
					case "opaque", "semi-strip":
					case "binary":
						next[o+3] ^= 0xff
					default:
						next[o+3] = r.Byte()
					}
				}
			}
		case "repaint-existing", "repaint-flat":
			// repaint (almost) everything with one flat opaque colour; non-opaque pixels (and, for
			// repaint-flat, a kept rectangle) stay as they are. With repaint-existing the colour is one
			// that already occurs, so the unchanged pixels form a scattered pattern inside the changed area.
			c := [4]byte{r.Byte(), r.Byte(), r.Byte(), 255}
			if edit == "repaint-existing" {
				for try := 0; try < 20; try++ {
					o := r.Intn(s.CW*s.CH) * 4
					if cur[o+3] == 255 {
						c = [4]byte{cur[o], cur[o+1], cur[o+2], 255}
						break
					}
				}
			}
			kx, ky := r.Intn(s.CW), r.Intn(s.CH)
			kw, kh := 1+r.Intn(minI(6, s.CW-kx)), 1+r.Intn(minI(3, s.CH-ky))
			for y := 0; y < s.CH; y++ {
				for x := 0; x < s.CW; x++ {
					o := (y*s.CW + x) * 4
					if cur[o+3] != 255 {
						continue
					}
					if edit == "repaint-flat" && x >= kx && x < kx+kw && y >= ky && y < ky+kh {
						continue
					}
					setpx(x, y, c)
				}
			}
		case "smaller-image":
			w, h = 1+r.Intn(s.CW), 1+r.Intn(s.CH)
		case "new-picture":
			next = render(r.U64())
		}
		pic := AnimPic{W: w, H: h, Edit: edit}
		if w != s.CW || h != s.CH {
			// the smaller picture shows the top-left part of `next`; the encoder places it on a transparent canvas
			pic.Pix = make([]byte, w*h*4)
			for y := 0; y < h; y++ {
				copy(pic.Pix[y*w*4:(y+1)*w*4], next[y*s.CW*4:y*s.CW*4+w*4])
			}
			// canvas after this frame = picture at (0,0), rest transparent
			canvas := make([]byte, s.CW*s.CH*4)
			for y := 0; y < h; y++ {
				copy(canvas[y*s.CW*4:y*s.CW*4+w*4], pic.Pix[y*w*4:(y+1)*w*4])
			}
			cur = canvas
		} else {
			pic.Pix = next
			cur = next
		}
		switch durCls {
		case "small":
			pic.DurMS = rapid.IntRange(minDur, 120).Draw(t, "dur")
		case "zero-mix":
			pic.DurMS = rapid.SampledFrom([]int{minDur, minDur, 1, 2, 40}).Draw(t, "durz")
		case "min":
			pic.DurMS = minDur // every frame with the smallest duration (0 for C08: a file that is not "animated" by its timing)
		default:
			pic.DurMS = rapid.SampledFrom([]int{1, 100, 0xFFFFFF, 0xFFFFFE, 0x800000, 0xFFFFFF - 100}).Draw(t, "durh")
			if pic.DurMS < minDur {
				pic.DurMS = minDur
			}
		}
		pic.Store = rapid.SampledFrom([]string{"tight", "tight", "tight", "sub", "stride", "generic", "rgba"}).Draw(t, "store")
		if pic.Store == "rgba" {
			for i := 3; i < len(pic.Pix); i += 4 {
				if a := pic.Pix[i]; a != 0 && a != 255 {
					pic.Store = "tight" // premultiplication would round the colours of translucent pixels
					break
				}
			}
		}
		if pic.Store == "sub" || pic.Store == "stride" {
			pic.OX, pic.OY = rapid.IntRange(0, 5).Draw(t, "storeOX"), rapid.IntRange(0, 5).Draw(t, "storeOY")
		}
		s.Frames = append(s.Frames, pic)
	}
	s.Kmin = rapid.SampledFrom([]int{0, 0, 1, 2, 3, 5, 100}).Draw(t, "kmin")
	s.Kmax = rapid.SampledFrom([]int{0, 0, 1, 2, 3, 5, 9, 1000}).Draw(t, "kmax")
	s.Loop = rapid.SampledFrom([]int{0, 0, 1, 7, 65535, 65536, 100000, -1}).Draw(t, "loop")
	s.BG = rapid.SampledFrom([][4]byte{{}, {}, {255, 255, 255, 255}, {0, 0, 0, 255}, {10, 200, 30, 128}, {255, 0, 255, 1}, {1, 2, 3, 0}}).Draw(t, "bg")
	return s
}

func minI(a, b int) int {
	if a < b {
		return a
	}
	return b
}
