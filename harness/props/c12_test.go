package props

import (
	"time"
	"bytes"
	"fmt"
	"runtime"
	"sort"
	"sync"
	"testing"

	"github.com/deepteams/webp/internal/verifhook"
	"github.com/deepteams/webp/verifharness/core"
	"github.com/deepteams/webp/verifharness/gen"
	"pgregory.net/rapid"
)

// C12: results do not depend on the number of CPUs available (GOMAXPROCS).

type c12Case struct {
	Img   *gen.Img
	Opts  *gen.Opts
	Procs []int
	// Plan: delays applied at the row pipeline's hook points while GOMAXPROCS > 1 (nil = none). "The same bytes for
	// every GOMAXPROCS value" has to hold however the extra workers happen to interleave, so some cases run the
	// multi-worker encodes under a perturbed schedule (same mechanism as C10's schedule part).
	Plan []c10Delay
}

func genC12(t *rapid.T) *c12Case {
	c := &c12Case{}
	class := rapid.SampledFrom([]string{"lossy", "lossy", "lossy", "lossless-small", "lossless-50k", "lossless-50k", "lossless-100k"}).Draw(t, "class")
	if tierThorough() {
		class = rapid.SampledFrom([]string{"lossy", "lossy", "lossless-small", "lossless-50k", "lossless-50k", "lossless-100k", "lossless-100k"}).Draw(t, "classT")
	}
	var w, h int
	switch class {
	case "lossy":
		w, h = rapid.IntRange(8, 120).Draw(t, "w"), rapid.IntRange(49, 140).Draw(t, "h")
		if rapid.IntRange(0, 3).Draw(t, "tall") == 0 {
			// more macroblock rows than any worker count in use (17..64 rows): per-worker row ranges of
			// several rows, ranges that do not divide evenly, caps on the number of workers
			h = rapid.IntRange(257, 1024).Draw(t, "tallH")
			if rapid.Bool().Draw(t, "tallWide") {
				w = rapid.IntRange(120, 400).Draw(t, "tallW")
			}
		}
		c.Opts = gen.DrawLossyOpts(t, rapid.IntRange(0, 5).Draw(t, "targets") == 0)
	case "lossless-small":
		w, h = rapid.IntRange(8, 90).Draw(t, "w"), rapid.IntRange(8, 90).Draw(t, "h")
		c.Opts = gen.DrawLosslessOpts(t)
	case "lossless-50k":
		w = rapid.IntRange(200, 300).Draw(t, "w")
		h = 50001/w + 1 + rapid.IntRange(0, 40).Draw(t, "hx")
		c.Opts = gen.DrawLosslessOpts(t)
	default:
		w = rapid.IntRange(300, 380).Draw(t, "w")
		h = 100000/w + 1 + rapid.IntRange(0, 30).Draw(t, "hx")
		c.Opts = gen.DrawLosslessOpts(t)
		if c.Opts.Method > 4 && !tierThorough() {
			c.Opts.Method = 4
		}
	}
	if class == "lossless-50k" || class == "lossless-100k" {
		// same area, extreme shapes: a few very long rows or very many short ones (fewer rows than one
		// transform tile, fewer tile rows than workers, row splits that leave a worker without work)
		if sh := rapid.IntRange(0, 5).Draw(t, "shape"); sh >= 4 {
			area := w * h
			long := rapid.SampledFrom([]int{1200, 2500, 3000, 5000, 8191, 16000}).Draw(t, "long")
			short := area/long + 1 + rapid.IntRange(0, 6).Draw(t, "shortx")
			if sh == 4 {
				w, h = long, short
			} else {
				w, h = short, long
			}
		}
	}
	content := rapid.SampledFrom([]string{"photo", "tiled", "tiled", "pal16", "pal256", "gradient", "noise", "sparse", "regions", "regions", "regions", "bands", "bands", "bands"}).Draw(t, "content")
	// channel relations (grey, green-only, red = blue): the colour-decorrelation transforms become trivial for some
	// or all tiles, which is where "nothing to do for this worker" shortcuts live
	content += rapid.SampledFrom([]string{"", "", "", "", "", "+grey", "+grey", "+g", "+rb"}).Draw(t, "tint")
	alpha := rapid.SampledFrom([]string{"opaque", "opaque", "gradient", "binary", "noise", "levels"}).Draw(t, "alpha")
	seed := rapid.Uint64().Draw(t, "seed")
	if c.Opts.Lossless && rapid.Bool().Draw(t, "highQ") {
		c.Opts.SetQuality(float32(rapid.IntRange(90, 100).Draw(t, "q90")))
	}
	if class == "lossy" && rapid.IntRange(0, 2).Draw(t, "perturb") == 0 {
		for i, n := 0, rapid.IntRange(1, 4).Draw(t, "nDelays"); i < n; i++ {
			d := c10Delay{Site: rapid.SampledFrom([]string{"wait", "wait.registered", "signal", "signal.stored", "claim", "export"}).Draw(t, "site")}
			d.RowMod = rapid.IntRange(1, 4).Draw(t, "rowMod")
			d.RowRes = rapid.IntRange(0, d.RowMod-1).Draw(t, "rowRes")
			d.Kind = rapid.SampledFrom([]string{"gosched", "gosched", "sleep"}).Draw(t, "kind")
			if d.Kind == "gosched" {
				d.N = rapid.IntRange(1, 20).Draw(t, "n")
			} else {
				d.N = rapid.IntRange(1, 200).Draw(t, "us")
			}
			c.Plan = append(c.Plan, d)
		}
	}
	c.Img = &gen.Img{W: w, H: h, Kind: "nrgba", Place: "tight", Content: content, Alpha: alpha}
	c.Img.Pix = gen.RenderContent(w, h, content, alpha, seed)
	c.Img.Colors = 300
	all := []int{1, 2, 3, 4, 5, 6, 7, 8, 12, 16, 32, 17, 20, 24, 31, 33, 48, 64, 128}
	n := 4
	if tierThorough() {
		n = 7
	}
	set := map[int]bool{1: true}
	for len(set) < n+1 {
		set[rapid.SampledFrom(all).Draw(t, "p")] = true
	}
	for p := range set {
		c.Procs = append(c.Procs, p)
	}
	sort.Ints(c.Procs)
	return c
}

var c12Sites = []string{"lossy.switch", "lossy.rows", "lossy.analysis", "lossy.importY", "lossy.importUV", "ll.hashchain", "ll.enc.predictor", "ll.enc.crosscolor", "ll.enc.histo.a", "ll.enc.histo.b", "ll.dec.crosscolor", "ll.dec.argb", "anim.decodeframes"}

var hookMu sync.Mutex

// encodeAt encodes with GOMAXPROCS=p from a flushed-pool state. pin: sites forced to one worker
// (nil = none); it also returns the set of sites that saw more than one worker.
func encodeAt(c *c12Case, p int, pin map[string]bool) ([]byte, map[string]bool, error) {
	engaged := map[string]bool{}
	var mu sync.Mutex
	verifhook.OnWorkers = func(site string, n int) int {
		if pin != nil && pin[site] {
			return 1
		}
		if n > 1 {
			mu.Lock()
			engaged[site] = true
			mu.Unlock()
		}
		return n
	}
	if p > 1 && len(c.Plan) > 0 {
		verifhook.OnYield = func(site string, y, x int) {
			for _, d := range c.Plan {
				if d.Site == site && y%d.RowMod == d.RowRes {
					if d.Kind == "gosched" {
						for i := 0; i < d.N; i++ {
							runtime.Gosched()
						}
					} else {
						time.Sleep(time.Duration(d.N) * time.Microsecond)
					}
				}
			}
		}
	}
	old := runtime.GOMAXPROCS(p)
	flushPools()
	b, err := encodeImg(c.Img.Build(), c.Opts)
	runtime.GOMAXPROCS(old)
	verifhook.OnWorkers = nil
	verifhook.OnYield = nil
	return b, engaged, err
}

func checkC12(c *c12Case, o *core.Obs) error {
	hookMu.Lock()
	defer hookMu.Unlock()
	ref, _, err := encodeAt(c, 1, nil)
	if err != nil {
		return fmt.Errorf("Encode: %v", err)
	}
	codec := "lossy"
	if c.Opts.Lossless {
		codec = "lossless"
	}
	allEngaged := map[string]bool{}
	for _, p := range c.Procs[1:] {
		got, engaged, err := encodeAt(c, p, nil)
		if err != nil {
			return fmt.Errorf("Encode at GOMAXPROCS=%d: %v", p, err)
		}
		for s := range engaged {
			allEngaged[s] = true
		}
		if !bytes.Equal(ref, got) {
			// attribute: which single site, when pinned to one worker, restores the P=1 bytes?
			culprit := ""
			for _, s := range c12Sites {
				if !engaged[s] && s != "lossy.switch" {
					continue
				}
				b2, _, _ := encodeAt(c, p, map[string]bool{s: true})
				if bytes.Equal(b2, ref) {
					culprit = s
					break
				}
			}
			msg := fmt.Sprintf("%s Encode bytes differ between GOMAXPROCS=1 (%d bytes) and GOMAXPROCS=%d (%d bytes); pinning site %q to one worker restores equality", codec, len(ref), p, len(got), culprit)
			if culprit != "" {
				return core.Known("C12-site-"+culprit, "%s", msg)
			}
			return fmt.Errorf("%s", msg)
		}
	}
	// decode side: same file, every P
	var refPix []byte
	for i, p := range c.Procs {
		var emu sync.Mutex
		verifhook.OnWorkers = func(site string, n int) int {
			if n > 1 {
				emu.Lock()
				allEngaged[site] = true
				emu.Unlock()
			}
			return n
		}
		old := runtime.GOMAXPROCS(p)
		flushPools()
		img, err := decodeBytes(ref)
		runtime.GOMAXPROCS(old)
		verifhook.OnWorkers = nil
		if err != nil {
			return fmt.Errorf("Decode at GOMAXPROCS=%d: %v", p, err)
		}
		v := viewOf(img, nil)
		if i == 0 {
			refPix = v.Pix
		} else if !bytes.Equal(refPix, v.Pix) {
			return fmt.Errorf("%s Decode pixels differ between GOMAXPROCS=1 and GOMAXPROCS=%d", codec, p)
		}
	}
	sites := ""
	var ss []string
	for s := range allEngaged {
		ss = append(ss, s)
	}
	sort.Strings(ss)
	for _, s := range ss {
		sites += s + ","
		o.Label("site=" + s)
	}
	o.Label("codec=" + codec)
	o.SampleJSON = map[string]any{"img": c.Img.Summary(), "opts": c.Opts.Summary(), "procs": c.Procs, "sites_engaged": ss}
	if len(ss) > 0 {
		o.NonTrivial("%s|%s|m%d|%s", codec, sites, c.Opts.Method, c.Img.SizeClass())
	}
	return nil
}

func TestC12(t *testing.T) { core.Run(t, "C12", genC12, checkC12) }
