package props

import (
	"bytes"
	"os"
	"fmt"
	"image"
	"runtime"
	"testing"
	"time"

	"github.com/deepteams/webp"
	"github.com/deepteams/webp/animation"
	"github.com/deepteams/webp/mux"
	"github.com/deepteams/webp/verifharness/core"
	"github.com/deepteams/webp/verifharness/gen"
	"github.com/deepteams/webp/verifharness/ref/riffwalk"
	"github.com/deepteams/webp/verifharness/ref/xref"
	"pgregory.net/rapid"
)

// C05: no input bytes can crash, hang or exhaust any decoding entry point.

type c05Case struct {
	Source string // mutate | random | chunks
	Seed   string
	Muts   []string
	Data   []byte
	Procs  int // GOMAXPROCS while the entry points run (0 = leave as is): worker counts of the parallel readers depend on it
}

func genC05(t *rapid.T) *c05Case {
	c := &c05Case{Source: rapid.SampledFrom([]string{"mutate", "mutate", "mutate", "mutate", "mutate", "random", "chunks", "vp8lgen", "vp8gen"}).Draw(t, "source")}
	pool := seeds()
	c.Procs = rapid.SampledFrom([]int{0, 0, 1, 2, 3, 4}).Draw(t, "procs")
	switch c.Source {
	case "mutate":
		s := pool[rapid.IntRange(0, len(pool)-1).Draw(t, "seedIdx")]
		o := pool[rapid.IntRange(0, len(pool)-1).Draw(t, "otherIdx")]
		c.Seed = s.Name
		c.Data, c.Muts = gen.Mutate(t, s.Data, o.Data, 4)
	case "vp8lgen", "vp8gen":
		// a freshly generated stream using syntax the package's own encoder never writes (every
		// predictor mode incl. 14/15, all code shapes, arbitrary intra modes and tokens), intact or
		// mutated: reaches decoder states that mutations of encoder output do not
		var bs []byte
		if c.Source == "vp8lgen" {
			bs, _ = gen.DrawVP8L(t, 40).Build()
			c.Data = xref.Simple("VP8L", bs)
		} else {
			bs = gen.DrawVP8(t, 48).Build()
			c.Data = xref.Simple("VP8 ", bs)
		}
		c.Seed = c.Source
		if rapid.Bool().Draw(t, "mutateGenerated") {
			o := pool[rapid.IntRange(0, len(pool)-1).Draw(t, "otherIdx")]
			c.Data, c.Muts = gen.Mutate(t, c.Data, o.Data, 3)
		}
	case "random":
		n := rapid.IntRange(0, 200).Draw(t, "n")
		r := gen.NewRng(rapid.Uint64().Draw(t, "rseed"))
		body := make([]byte, n)
		for i := range body {
			body[i] = r.Byte()
		}
		first := rapid.SampledFrom([]string{"VP8 ", "VP8L", "VP8X", "ALPH", "ANMF", "JUNK"}).Draw(t, "first")
		c.Data = append([]byte("RIFF\x00\x00\x00\x00WEBP"+first), body...)
		sz := uint32(len(c.Data) - 8 + rapid.IntRange(-3, 3).Draw(t, "szd"))
		c.Data[4], c.Data[5], c.Data[6], c.Data[7] = byte(sz), byte(sz>>8), byte(sz>>16), byte(sz>>24)
	default:
		// a container program: arbitrary chunk sequence with consistent or inconsistent sizes
		body := []byte("WEBP")
		n := rapid.IntRange(1, 7).Draw(t, "nChunks")
		pool := seeds()
		for i := 0; i < n; i++ {
			id := rapid.SampledFrom([]string{"VP8X", "VP8 ", "VP8L", "ALPH", "ANIM", "ANMF", "ICCP", "EXIF", "XMP ", "ZZZZ"}).Draw(t, "cid")
			var payload []byte
			switch rapid.IntRange(0, 3).Draw(t, "payloadKind") {
			case 0: // payload of the same kind taken from a seed
				s := pool[rapid.IntRange(0, len(pool)-1).Draw(t, "cseed")]
				if rf, err := riffwalk.Parse(s.Data); err == nil {
					for _, ch := range rf.Chunks {
						if ch.ID == id {
							payload = ch.Data
						}
					}
					if payload == nil && (id == "VP8 " || id == "VP8L") && rf.Frames[0].BitstreamID == id {
						payload = rf.Frames[0].Bitstream
					}
				}
			case 1:
				payload = make([]byte, rapid.IntRange(0, 40).Draw(t, "plen"))
				r := gen.NewRng(rapid.Uint64().Draw(t, "pseed"))
				for j := range payload {
					payload[j] = r.Byte()
				}
			case 2:
				payload = make([]byte, rapid.SampledFrom([]int{0, 1, 5, 6, 9, 10, 11, 15, 16, 17}).Draw(t, "plen2"))
			}
			sz := uint32(len(payload))
			if rapid.IntRange(0, 4).Draw(t, "lie") == 0 {
				sz = uint32(int(sz) + rapid.IntRange(-8, 8).Draw(t, "lieBy"))
			}
			hdr := []byte(id + "\x00\x00\x00\x00")
			hdr[4], hdr[5], hdr[6], hdr[7] = byte(sz), byte(sz>>8), byte(sz>>16), byte(sz>>24)
			body = append(body, hdr...)
			body = append(body, payload...)
			if len(payload)&1 == 1 && rapid.IntRange(0, 5).Draw(t, "pad") != 0 {
				body = append(body, 0)
			}
		}
		c.Data = append([]byte("RIFF\x00\x00\x00\x00"), body...)
		sz := uint32(len(body))
		c.Data[4], c.Data[5], c.Data[6], c.Data[7] = byte(sz), byte(sz>>8), byte(sz>>16), byte(sz>>24)
	}
	return c
}

const c05HugePixels = 1 << 22 // declared areas above this run through the header-only entry points

func checkImageWellFormed(img image.Image) error {
	b := img.Bounds()
	w, h := b.Dx(), b.Dy()
	if w <= 0 || h <= 0 {
		return fmt.Errorf("returned image has non-positive bounds %v", b)
	}
	switch m := img.(type) {
	case *image.NRGBA:
		if m.Stride < w*4 || len(m.Pix) < (h-1)*m.Stride+w*4 {
			return fmt.Errorf("NRGBA buffer too small: %v stride %d len %d", b, m.Stride, len(m.Pix))
		}
	case *image.YCbCr:
		cw, ch := (w+1)/2, (h+1)/2
		if m.YStride < w || len(m.Y) < (h-1)*m.YStride+w || m.CStride < cw || len(m.Cb) < (ch-1)*m.CStride+cw || len(m.Cr) < (ch-1)*m.CStride+cw {
			return fmt.Errorf("YCbCr buffers too small: %v ystride %d ylen %d cstride %d clen %d/%d", b, m.YStride, len(m.Y), m.CStride, len(m.Cb), len(m.Cr))
		}
		if m.SubsampleRatio != image.YCbCrSubsampleRatio420 {
			return fmt.Errorf("unexpected subsample ratio %v", m.SubsampleRatio)
		}
	default:
		return fmt.Errorf("unexpected image type %T", img)
	}
	return nil
}

// runEntryPoints exercises every parsing/decoding entry point on data. It returns an outcome
// label and an error for malformed results. Panics propagate to the caller.
func runEntryPoints(data []byte, full bool) (string, error) {
	out := ""
	mark := func(ok bool) {
		if ok {
			out += "1"
		} else {
			out += "0"
		}
	}
	cfg, errC := webp.DecodeConfig(bytes.NewReader(data))
	mark(errC == nil)
	if errC == nil && (cfg.Width <= 0 || cfg.Height <= 0 || cfg.ColorModel == nil) {
		return out, fmt.Errorf("DecodeConfig succeeded with %dx%d model %v", cfg.Width, cfg.Height, cfg.ColorModel)
	}
	ft, errF := webp.GetFeatures(bytes.NewReader(data))
	mark(errF == nil)
	if errF == nil && (ft == nil || ft.Width <= 0 || ft.Height <= 0 || ft.FrameCount < 0) {
		return out, fmt.Errorf("GetFeatures succeeded with %+v", ft)
	}
	if _, _, err := image.DecodeConfig(bytes.NewReader(data)); (err == nil) != (errC == nil) && len(data) >= 12 && string(data[:4]) == "RIFF" && string(data[8:12]) == "WEBP" {
		return out, fmt.Errorf("image.DecodeConfig err=%v but webp.DecodeConfig err=%v", err, errC)
	}
	dmx, errD := mux.NewDemuxer(data)
	mark(errD == nil)
	if errD == nil {
		f := dmx.GetFeatures()
		_ = f
		n := dmx.NumFrames()
		if n < 0 {
			return out, fmt.Errorf("NumFrames %d", n)
		}
		for i := -1; i <= n; i++ {
			fi, err := dmx.Frame(i)
			if (i < 0 || i >= n) && err == nil {
				return out, fmt.Errorf("Demuxer.Frame(%d) of %d succeeded", i, n)
			}
			if err == nil && fi == nil {
				return out, fmt.Errorf("Demuxer.Frame(%d) returned nil without error", i)
			}
		}
		for _, id := range []mux.ChunkID{mux.FourCCICCP, mux.FourCCEXIF, mux.FourCCXMP} {
			dmx.GetChunk(id)
		}
		dmx.LoopCount()
		dmx.BackgroundColor()
		it := dmx.NewFrameIterator()
		k := 0
		for it.HasNext() {
			if _, err := it.Next(); err != nil {
				break
			}
			if k++; k > n+1 {
				return out, fmt.Errorf("frame iterator yields more than NumFrames=%d frames", n)
			}
		}
	}
	// the chunk-level readers of the demuxer package: walk the file chunk by chunk, and probe a few other offsets
	if err := walkChunks(data); err != nil {
		return out, err
	}
	// the animation reader through an io.Reader (not only DecodeBytes), delivered in another legal way
	rk := readerKinds[(len(data)+int(sum8(data)))%len(readerKinds)]
	if len(data) <= 1<<16 || rk.Name != "onebyte" {
		anR, errR := animation.Decode(rk.New(data))
		anB, errB := animation.DecodeBytes(data)
		if (errR == nil) != (errB == nil) {
			return out, fmt.Errorf("animation.Decode through a %s reader err=%v, DecodeBytes err=%v", rk.Name, errR, errB)
		}
		if errR == nil && (len(anR.Frames) != len(anB.Frames) || anR.CanvasWidth != anB.CanvasWidth || anR.CanvasHeight != anB.CanvasHeight || anR.LoopCount != anB.LoopCount) {
			return out, fmt.Errorf("animation.Decode through a %s reader: %d frames %dx%d loop %d, DecodeBytes: %d frames %dx%d loop %d", rk.Name,
				len(anR.Frames), anR.CanvasWidth, anR.CanvasHeight, anR.LoopCount, len(anB.Frames), anB.CanvasWidth, anB.CanvasHeight, anB.LoopCount)
		}
		cfgR, errCR := webp.DecodeConfig(rk.New(data))
		if (errCR == nil) != (errC == nil) || (errC == nil && (cfgR.Width != cfg.Width || cfgR.Height != cfg.Height || cfgR.ColorModel != cfg.ColorModel)) {
			return out, fmt.Errorf("DecodeConfig through a %s reader: %v %dx%d, through bytes.Reader: %v %dx%d", rk.Name, errCR, cfgR.Width, cfgR.Height, errC, cfg.Width, cfg.Height)
		}
		ftR, errFR := webp.GetFeatures(rk.New(data))
		if (errFR == nil) != (errF == nil) || (errF == nil && *ftR != *ft) {
			return out, fmt.Errorf("GetFeatures through a %s reader: %v %+v, through bytes.Reader: %v %+v", rk.Name, errFR, ftR, errF, ft)
		}
	}
	if !full {
		return out + "-hdronly", nil
	}
	if len(data) <= 1<<16 || rk.Name != "onebyte" {
		imgR, errIR := webp.Decode(rk.New(data))
		imgB, errIB := webp.Decode(bytes.NewReader(data))
		if (errIR == nil) != (errIB == nil) {
			return out, fmt.Errorf("Decode through a %s reader err=%v, through bytes.Reader err=%v", rk.Name, errIR, errIB)
		}
		if errIR == nil {
			if err := checkImageWellFormed(imgR); err != nil {
				return out, fmt.Errorf("Decode (%s reader): %v", rk.Name, err)
			}
			if va, vb := viewOf(imgR, nil), viewOf(imgB, nil); va.Type != vb.Type || !bytes.Equal(va.Pix, vb.Pix) {
				return out, fmt.Errorf("Decode through a %s reader and through a bytes.Reader return different pictures", rk.Name)
			}
		}
	}
	img, errI := webp.Decode(bytes.NewReader(data))
	mark(errI == nil)
	if errI == nil {
		if img == nil {
			return out, fmt.Errorf("Decode returned nil image without error")
		}
		if err := checkImageWellFormed(img); err != nil {
			return out, fmt.Errorf("Decode: %v", err)
		}
	}
	img2, _, errI2 := image.Decode(bytes.NewReader(data))
	if (errI2 == nil) != (errI == nil) && len(data) >= 12 && string(data[:4]) == "RIFF" && string(data[8:12]) == "WEBP" {
		return out, fmt.Errorf("image.Decode err=%v but webp.Decode err=%v", errI2, errI)
	}
	if errI2 == nil {
		if err := checkImageWellFormed(img2); err != nil {
			return out, fmt.Errorf("image.Decode: %v", err)
		}
	}
	for pass := 0; pass < 2; pass++ {
		an, errA := animation.DecodeBytes(data)
		if pass == 0 {
			mark(errA == nil)
		}
		if errA != nil {
			break
		}
		var errDF error
		if pass == 0 {
			errDF = an.DecodeFrames()
		} else {
			errDF = an.DecodeFramesParallel()
		}
		mark(errDF == nil)
		if errDF != nil {
			continue
		}
		dec, err := animation.NewAnimDecoder(an)
		if err != nil {
			continue
		}
		steps := 0
		for dec.HasNext() {
			cv, _, err := dec.NextFrame()
			if err != nil {
				break
			}
			if cv == nil || cv.Bounds().Dx() != an.CanvasWidth || cv.Bounds().Dy() != an.CanvasHeight {
				return out, fmt.Errorf("NextFrame returned canvas %v for %dx%d", cv.Bounds(), an.CanvasWidth, an.CanvasHeight)
			}
			if steps++; steps > len(an.Frames) {
				return out, fmt.Errorf("AnimDecoder yields more canvases than frames")
			}
		}
		// Reset and replay: same number of canvases, no panic
		dec.Reset()
		again := 0
		for dec.HasNext() {
			if _, _, err := dec.NextFrame(); err != nil {
				break
			}
			if again++; again > len(an.Frames) {
				return out, fmt.Errorf("AnimDecoder yields more canvases than frames after Reset")
			}
		}
		if again != steps {
			return out, fmt.Errorf("AnimDecoder played %d canvases, after Reset %d", steps, again)
		}
	}
	return out, nil
}

func sum8(b []byte) (s byte) {
	for i := 0; i < len(b); i += 1 + len(b)/64 {
		s += b[i]
	}
	return
}

// walkChunks drives mux.ReadChunkHeader / mux.ReadChunk over the file the way a chunk walker would (from offset 12,
// advancing by the consumed count) and at a few other offsets. A success must describe bytes that exist.
func walkChunks(data []byte) error {
	one := func(off int) (int, error) {
		d := data[off:]
		id, size, errH := mux.ReadChunkHeader(d)
		ck, n, err := mux.ReadChunk(d)
		if errH != nil && err == nil {
			return 0, fmt.Errorf("mux.ReadChunk at %d succeeds although ReadChunkHeader fails: %v", off, errH)
		}
		if err != nil {
			return 0, nil
		}
		if ck.ID != id || ck.Size != size || uint32(len(ck.Data)) != size || n < 8+int(size) || n > 8+int(size)+1 || n > len(d) {
			return 0, fmt.Errorf("mux.ReadChunk at %d of %d: id %x/%x size %d/%d len(Data) %d consumed %d", off, len(data), ck.ID, id, ck.Size, size, len(ck.Data), n)
		}
		if size > 0 && &ck.Data[0] != &d[8] {
			// documented as a view or a copy? either is fine; only the contents matter
			if !bytes.Equal(ck.Data, d[8:8+int(size)]) {
				return 0, fmt.Errorf("mux.ReadChunk at %d returns other bytes than the payload", off)
			}
		}
		return n, nil
	}
	for off, steps := 12, 0; off <= len(data) && steps < 20000; steps++ {
		n, err := one(off)
		if err != nil {
			return err
		}
		if n == 0 {
			break
		}
		off += n
	}
	for _, off := range []int{0, 1, 8, len(data) - 8, len(data) - 7, len(data) - 1, len(data)} {
		if off >= 0 && off <= len(data) {
			if _, err := one(off); err != nil {
				return err
			}
		}
	}
	return nil
}

type c05Result struct {
	outcome string
	err     error
	alloc   uint64
	panicV  any
}

func runC05Guarded(data []byte, full bool, limit time.Duration) (*c05Result, bool) {
	ch := make(chan *c05Result, 1)
	go func() {
		r := &c05Result{}
		defer func() {
			if p := recover(); p != nil {
				r.panicV = fmt.Sprintf("%v\n%s", p, stackTrace())
			}
			ch <- r
		}()
		var m0, m1 runtime.MemStats
		runtime.ReadMemStats(&m0)
		r.outcome, r.err = runEntryPoints(data, full)
		runtime.ReadMemStats(&m1)
		r.alloc = m1.TotalAlloc - m0.TotalAlloc
	}()
	select {
	case r := <-ch:
		return r, true
	case <-time.After(limit):
		return nil, false
	}
}

func stackTrace() string {
	buf := make([]byte, 1<<14)
	return string(buf[:runtime.Stack(buf, false)])
}

func checkC05(c *c05Case, o *core.Obs) error {
	data := c.Data
	declared := riffwalk.DeclaredPixels(data)
	full := declared <= c05HugePixels
	// Time is only a watchdog: the limits are generous (inputs here take milliseconds; a 4-Mpixel
	// canvas with a handful of frames takes about a second) and scale with the declared size, and an
	// expiry must reproduce with a much longer limit before it counts as a hang.
	limit := 30*time.Second + time.Duration(declared/20000)*time.Millisecond
	if c.Procs > 0 {
		defer runtime.GOMAXPROCS(runtime.GOMAXPROCS(c.Procs))
		o.Labelf("gomaxprocs=%d", c.Procs)
	}
	r, done := runC05Guarded(data, full, limit)
	if !done {
		r, done = runC05Guarded(data, full, 6*limit)
		if !done {
			return fmt.Errorf("hang: entry points did not return within %v on a %d-byte input (declared pixels %d)", 6*limit, len(data), declared)
		}
		o.Label("slow-but-finished")
	}
	if r.panicV != nil {
		return fmt.Errorf("panic in a decoding entry point: %v", r.panicV)
	}
	if r.err != nil {
		return r.err
	}
	bound := uint64(64<<20) + 64*(uint64(len(data))+4*declared)
	if r.alloc > bound {
		return fmt.Errorf("allocated %d bytes for a %d-byte input declaring %d pixels (bound %d)", r.alloc, len(data), declared, bound)
	}
	o.Label("source=" + c.Source)
	o.Label("outcome=" + r.outcome)
	if !full {
		o.Label("skipped_huge_declared")
	}
	mk := ""
	for _, m := range c.Muts {
		for i := 0; i < len(m); i++ {
			if m[i] == '@' || m[i] == '[' || m[i] == '+' {
				mk += m[:i] + ","
				break
			}
		}
	}
	o.SampleJSON = map[string]any{"source": c.Source, "seed": c.Seed, "mutations": c.Muts, "len": len(data), "outcome": r.outcome}
	if len(data) >= 12 && string(data[:4]) == "RIFF" && string(data[8:12]) == "WEBP" {
		o.NonTrivial("%s|%s|%s|%s", c.Source, c.Seed, mk, r.outcome)
	}
	return nil
}

func TestC05(t *testing.T) {
	if p := os.Getenv("VERIF_REPLAY"); p != "" {
		if data, ok := core.FuzzCorpusBytes(p); ok {
			// a crasher saved by the native fuzzer: replay it as a plain case
			if err := checkC05(&c05Case{Source: "fuzz", Data: data}, &core.Obs{}); err != nil {
				fmt.Printf("REPLAY-FAIL property=C05 %v\n", err)
				t.Fatalf("replay reproduces: %v", err)
			}
			fmt.Println("REPLAY-PASS property=C05")
			return
		}
	}
	core.Run(t, "C05", genC05, checkC05)
}

// FuzzC05 is the native coverage-guided target (thorough tier).
func FuzzC05(f *testing.F) {
	for _, s := range seeds() {
		f.Add(s.Data)
	}
	f.Fuzz(func(t *testing.T, data []byte) {
		if len(data) > 1<<20 {
			return
		}
		declared := riffwalk.DeclaredPixels(data)
		if _, err := runEntryPoints(data, declared <= c05HugePixels); err != nil {
			t.Fatalf("%v", err)
		}
	})
}
