package props

import (
	"bytes"
	"fmt"
	"image/color"
	"testing"

	"github.com/deepteams/webp"
	"github.com/deepteams/webp/verifharness/core"
	"github.com/deepteams/webp/verifharness/gen"
	"github.com/deepteams/webp/verifharness/ref/cref"
	"github.com/deepteams/webp/verifharness/ref/riffwalk"
	"pgregory.net/rapid"
)

// C02: every successful Encode emits a conformant, self-describing WebP file.

type c02Case struct {
	Img  *gen.Img
	Opts *gen.Opts
	// FaultPermille > 0: the encode is repeated with writers that fail after k bytes (k at the
	// container's header boundaries, at the last bytes and at this fraction of the file)
	FaultPermille int
}

func genC02(t *rapid.T) *c02Case {
	cfg := gen.ImgCfg{MaxSide: 48, BigChance: 4, BigSide: 160, ThinPermille: 6, LargePermille: 3}
	if tierThorough() {
		cfg = gen.ImgCfg{MaxSide: 80, BigChance: 4, BigSide: 360, ThinPermille: 6, LargePermille: 3}
	}
	c := &c02Case{Img: gen.DrawImg(t, cfg)}
	if rapid.IntRange(0, 2).Draw(t, "lossless") == 0 {
		c.Opts = gen.DrawLosslessOpts(t)
	} else {
		c.Opts = gen.DrawLossyOpts(t, true)
	}
	if rapid.IntRange(0, 2).Draw(t, "withMeta") == 0 {
		c.Opts.DrawMeta(t, 60)
	}
	if rapid.IntRange(0, 5).Draw(t, "faultWriter") == 0 {
		c.FaultPermille = rapid.IntRange(1, 999).Draw(t, "faultAt")
	}
	if !c.Opts.Lossless && rapid.IntRange(0, 19).Draw(t, "skipHeavy") == 11 {
		steerSkipHeavy(t, c.Img, c.Opts)
	}
	// rare: large noisy pictures at high quality, so that token partitions exceed 64 KiB (the
	// 3-byte partition size fields and large chunk sizes are otherwise never exercised)
	bigEvery := 160
	if tierThorough() {
		bigEvery = 400
	}
	if rapid.IntRange(0, bigEvery-1).Draw(t, "hugePartitions") == 37 {
		w := rapid.IntRange(400, 720).Draw(t, "hugeW")
		h := rapid.IntRange(400, 720).Draw(t, "hugeH")
		c.Img = &gen.Img{W: w, H: h, Kind: "nrgba", Place: "tight", Content: "noise", Alpha: "opaque", Colors: 300}
		c.Img.Pix = gen.RenderContent(w, h, "noise", "opaque", rapid.Uint64().Draw(t, "hugeSeed"))
		c.Opts = gen.FromDefault()
		c.Opts.NoMeta()
		c.Opts.SetQuality(float32(rapid.IntRange(90, 100).Draw(t, "hugeQ")))
		c.Opts.Method = rapid.IntRange(0, 3).Draw(t, "hugeMethod")
		c.Opts.Partitions = rapid.IntRange(1, 3).Draw(t, "hugeParts")
		c.Opts.Segments = rapid.IntRange(1, 4).Draw(t, "hugeSeg")
	}
	return c
}

// validateEncoded is the C02 structural oracle, shared with C20: file bytes vs the request.
func validateEncoded(data []byte, w, h int, srcTransparent bool, o *gen.Opts) (*riffwalk.File, error) {
	rf, err := riffwalk.Parse(data)
	if err != nil {
		return nil, fmt.Errorf("structure: %v", err)
	}
	if len(rf.Frames) != 1 || rf.Animated {
		return rf, fmt.Errorf("still encode produced %d frames (animated=%v)", len(rf.Frames), rf.Animated)
	}
	fr := rf.Frames[0]
	if rf.CanvasW != w || rf.CanvasH != h || fr.BW != w || fr.BH != h {
		return rf, fmt.Errorf("declared size canvas %dx%d bitstream %dx%d, source %dx%d", rf.CanvasW, rf.CanvasH, fr.BW, fr.BH, w, h)
	}
	lossless := o != nil && !o.Nil && o.Lossless
	if fr.Lossless != lossless {
		return rf, fmt.Errorf("requested lossless=%v, file has %q", lossless, fr.BitstreamID)
	}
	announced := fr.HasAlph || fr.VP8LAlpha
	if rf.HasVP8X {
		announced = rf.Flags&riffwalk.FlagAlpha != 0
	}
	if srcTransparent && !announced {
		return rf, fmt.Errorf("source has non-opaque pixels but the file announces no alpha")
	}
	if !lossless && !srcTransparent && (fr.HasAlph || announced) {
		return rf, fmt.Errorf("opaque source but lossy file carries alpha (ALPH=%v flag=%v)", fr.HasAlph, announced)
	}
	if fr.HasAlph && len(fr.Alph) == 0 {
		return rf, fmt.Errorf("empty ALPH chunk")
	}
	var icc, exif, xmp []byte
	if o != nil && !o.Nil {
		icc, exif, xmp = o.ICC, o.EXIF, o.XMP
	}
	for _, m := range []struct {
		name    string
		want    []byte
		got     []byte
		present bool
	}{{"ICCP", icc, rf.ICC, rf.HasICC}, {"EXIF", exif, rf.EXIF, rf.HasEXIF}, {"XMP", xmp, rf.XMP, rf.HasXMP}} {
		if len(m.want) > 0 {
			if !m.present || !bytes.Equal(m.want, m.got) {
				return rf, fmt.Errorf("%s blob (%d bytes) not stored byte-exact (present=%v, %d bytes)", m.name, len(m.want), m.present, len(m.got))
			}
		} else if m.present && len(m.got) > 0 {
			return rf, fmt.Errorf("%s chunk with %d bytes although none was given", m.name, len(m.got))
		}
	}
	if !lossless && fr.VP8 != nil && o != nil && !o.Nil {
		if want := 1 << o.Partitions; o.Partitions >= 0 && o.Partitions <= 3 && fr.VP8.NumPartitions != want {
			return rf, fmt.Errorf("Partitions=%d but stream has %d token partitions", o.Partitions, fr.VP8.NumPartitions)
		}
	}
	return rf, nil
}

func srcHasTransparency(px []color.NRGBA) bool {
	for _, p := range px {
		if p.A != 255 {
			return true
		}
	}
	return false
}

func checkC02(c *c02Case, o *core.Obs) error {
	img := c.Img.Build()
	src := gen.Truth(img)
	data, err := encodeImg(img, c.Opts)
	if err != nil {
		return fmt.Errorf("Encode rejected a valid request: %v", err)
	}
	transp := srcHasTransparency(src)
	rf, err := validateEncoded(data, c.Img.W, c.Img.H, transp, c.Opts)
	if err != nil {
		return err
	}
	fr := rf.Frames[0]
	// package's own readers accept
	if _, err := webp.DecodeConfig(bytes.NewReader(data)); err != nil {
		return fmt.Errorf("DecodeConfig rejects Encode's output: %v", err)
	}
	if _, err := webp.GetFeatures(bytes.NewReader(data)); err != nil {
		return fmt.Errorf("GetFeatures rejects Encode's output: %v", err)
	}
	d := diffStill(&stillParts{File: data, Bitstream: fr.Bitstream, Alph: fr.Alph, HasAlph: fr.HasAlph, Lossless: fr.Lossless, W: c.Img.W, H: c.Img.H})
	codec := "lossy"
	if fr.Lossless {
		codec = "lossless"
	} else if fr.HasAlph {
		codec = "lossy+alpha"
	}
	o.Label("codec=" + codec)
	o.Labelf("method=%d", c.Opts.Method)
	o.Labelf("meta=%v", c.Opts.HasMeta())
	o.Labelf("vp8x=%v", rf.HasVP8X)
	o.Label("size=" + c.Img.SizeClass())
	if fr.VP8 != nil {
		big := false
		for _, ps := range fr.VP8.PartSizes {
			if ps >= 65536 {
				big = true
			}
		}
		o.Labelf("partition>=64KiB=%v", big)
		o.Labelf("partitions=%d", fr.VP8.NumPartitions)
		o.Labelf("segments_on=%v", fr.VP8.SegEnabled)
		o.Labelf("filter_simple=%v/level0=%v", fr.VP8.FilterSimple, fr.VP8.FilterLevel == 0)
	}
	if c.Opts.TargetSize > 0 || c.Opts.TargetPSNRBits != 0 {
		o.Label("target=yes")
	}
	o.Labelf("libwebp=%v", cref.Available())
	o.SampleJSON = map[string]any{"img": c.Img.Summary(), "opts": c.Opts.Summary(), "bytes": len(data), "chunks": rf.Order}
	if c.Img.Colors >= 2 {
		parity := func(b []byte) int { return len(b) & 1 }
		sig := fmt.Sprintf("%s|m%d|meta%d%d%d|par%d%d|", codec, c.Opts.Method, len(c.Opts.ICC)&1+b2i(len(c.Opts.ICC) > 0), len(c.Opts.EXIF)&1+b2i(len(c.Opts.EXIF) > 0), len(c.Opts.XMP)&1+b2i(len(c.Opts.XMP) > 0), parity(fr.Bitstream), parity(fr.Alph))
		if fr.VP8 != nil {
			sig += fmt.Sprintf("p%d|s%v|f%v%v|pass%d|t%v|sh%v|pp%d", fr.VP8.NumPartitions, fr.VP8.SegEnabled, fr.VP8.FilterSimple, fr.VP8.FilterLevel == 0, c.Opts.Pass, c.Opts.TargetSize > 0 || c.Opts.TargetPSNRBits != 0, c.Opts.UseSharpYUV, c.Opts.Preprocessing)
		}
		o.NonTrivial("%s", sig)
	}
	if c.FaultPermille > 0 && c.Img.W*c.Img.H <= 1<<16 {
		// injected fault: the writer fails after k bytes; Encode must not report success for the torso
		for _, k := range faultBudgets(len(data), c.FaultPermille) {
			fw := &faultWriter{budget: k}
			err := webp.Encode(fw, img, c.Opts.Build())
			if err == nil && fw.failed {
				return fmt.Errorf("Encode returned nil although the writer failed after %d of %d bytes (only %d bytes arrived)", k, len(data), fw.buf.Len())
			}
			if fw.buf.Len() > k {
				return fmt.Errorf("writer limited to %d bytes received %d", k, fw.buf.Len())
			}
		}
		o.Label("fault_writer=yes")
	}
	if d.RepoErr != nil {
		return fmt.Errorf("Decode rejects Encode's own output (%s): %v", codec, d.RepoErr)
	}
	if d.WitnessAccept < d.WitnessTotal {
		return fmt.Errorf("Encode reported success for a %s stream an independent decoder rejects: %s", codec, d.WitnessNote)
	}
	if !d.Truth {
		o.Inconclusive("witnesses disagree: %s", d.WitnessNote)
		return nil
	}
	if d.Mismatch != "" {
		return fmt.Errorf("package and independent decoders differ on Encode's output (%s): %s", codec, d.Mismatch)
	}
	return nil
}

func b2i(b bool) int {
	if b {
		return 1
	}
	return 0
}

func TestC02(t *testing.T) { core.Run(t, "C02", genC02, checkC02) }
