package props

import (
	"fmt"
	"image/color"
	"testing"

	"github.com/deepteams/webp/verifharness/core"
	"github.com/deepteams/webp/verifharness/gen"
	"pgregory.net/rapid"
)

// C01: lossless encode/decode round trip reproduces every pixel exactly.

type c01Case struct {
	Img  *gen.Img
	Opts *gen.Opts
}

func genC01(t *rapid.T) *c01Case {
	cfg := gen.ImgCfg{MaxSide: 40, BigChance: 4, BigSide: 200, ThinPermille: 6, LargePermille: 4}
	if tierThorough() {
		cfg = gen.ImgCfg{MaxSide: 72, BigChance: 3, BigSide: 420, ThinPermille: 6, LargePermille: 4}
	}
	c := &c01Case{Img: gen.DrawImg(t, cfg), Opts: gen.DrawLosslessOpts(t)}
	if rapid.IntRange(0, 3).Draw(t, "withMeta") == 0 {
		c.Opts.DrawMeta(t, 40)
	}
	return c
}

// premulAmbiguous: the source stores premultiplied 8-bit samples; un-multiplication of a
// semi-transparent pixel is then defined only up to rounding (DESIGN.md section 5).
func premulAmbiguous(kind string, a uint8) bool { return kind == "rgba" && a > 0 && a < 255 }

func comparePixelsLossless(kind string, exact bool, want, got []color.NRGBA, w int) error {
	if len(want) != len(got) {
		return fmt.Errorf("pixel count %d != %d", len(got), len(want))
	}
	for i := range want {
		s, d := want[i], got[i]
		if s == d {
			continue
		}
		if s.A == 0 && !exact && d == (color.NRGBA{}) {
			continue
		}
		if premulAmbiguous(kind, s.A) && d.A == s.A && absDiff(s.R, d.R) <= 1 && absDiff(s.G, d.G) <= 1 && absDiff(s.B, d.B) <= 1 {
			continue
		}
		return fmt.Errorf("pixel (%d,%d): source %s decoded %s", i%w, i/w, pixStr(s), pixStr(d))
	}
	return nil
}

func checkC01(c *c01Case, o *core.Obs) error {
	img := c.Img.Build()
	want := gen.Truth(img)
	data, err := encodeImg(img, c.Opts)
	if err != nil {
		return fmt.Errorf("Encode rejected a valid lossless request: %v", err)
	}
	dec, err := decodeBytes(data)
	if err != nil {
		return fmt.Errorf("Decode of own lossless output failed: %v", err)
	}
	b := dec.Bounds()
	if b.Dx() != c.Img.W || b.Dy() != c.Img.H {
		return fmt.Errorf("decoded size %dx%d, source %dx%d", b.Dx(), b.Dy(), c.Img.W, c.Img.H)
	}
	got := toNRGBA(dec)
	o.Label("kind=" + c.Img.Kind)
	o.Label("place=" + c.Img.Place)
	o.Label("colors=" + c.Img.ColorClass())
	o.Label("alpha=" + c.Img.Alpha)
	o.Label("size=" + c.Img.SizeClass())
	o.Labelf("method=%d", c.Opts.Method)
	o.Label("qband=" + gen.QualityBand(c.Opts.Quality()))
	if c.Opts.HasMeta() {
		o.Label("meta=yes")
	}
	distinct := map[color.NRGBA]struct{}{}
	for _, p := range want {
		distinct[p] = struct{}{}
		if len(distinct) > 1 {
			break
		}
	}
	if len(distinct) >= 2 {
		o.NonTrivial("%s|%s|%s|%s|m%d|%s|e%v", c.Img.ColorClass(), c.Img.Alpha, c.Img.SizeClass(), c.Img.Kind, c.Opts.Method, gen.QualityBand(c.Opts.Quality()), c.Opts.Exact)
	}
	o.SampleJSON = map[string]any{"img": c.Img.Summary(), "opts": c.Opts.Summary(), "bytes": len(data)}
	return comparePixelsLossless(c.Img.Kind, c.Opts.Exact, want, got, c.Img.W)
}

func TestC01(t *testing.T) { core.Run(t, "C01", genC01, checkC01) }
