package props

import (
	"context"
	"encoding/json"
	"fmt"
	"os"
	"os/exec"
	"runtime"
	"sort"
	"strings"
	"sync"
	"testing"
	"time"

	"github.com/deepteams/webp/verifharness/core"
	"github.com/deepteams/webp/verifharness/gen"
	"pgregory.net/rapid"
)

// ---- part (d): first use of the package, concurrently, in a fresh process ----
//
// Everything a process initialises lazily (lookup tables, pools, CPU feature probes) is initialised
// by the first calls. Parts (a)-(c) compute the stand-alone expectation first, so by the time their
// goroutines start every lazy initialisation has already happened. Here the generated calls are the
// very first use of the package in a new process (the test binary re-executed), made concurrently;
// only afterwards does the child compute the stand-alone results and compare.

type c10FreshCase struct {
	Lists [][]c11Op
	Procs int
}

func genC10Fresh(t *rapid.T) *c10FreshCase {
	c := &c10FreshCase{Procs: rapid.SampledFrom([]int{2, 4, 8, 16}).Draw(t, "procs")}
	g := rapid.IntRange(2, 8).Draw(t, "goroutines")
	same := rapid.IntRange(0, 2).Draw(t, "same") > 0 // identical first calls collide on the same lazy site
	var first []c11Op
	for i := 0; i < g; i++ {
		if same && first != nil {
			c.Lists = append(c.Lists, first)
			continue
		}
		var ops []c11Op
		if rapid.Bool().Draw(t, "plainEncode") {
			// a single Encode with freely drawn options (every optional feature of the coder has its own tables)
			w, h := rapid.IntRange(1, 40).Draw(t, "w"), rapid.IntRange(1, 40).Draw(t, "h")
			content := rapid.SampledFrom([]string{"photo", "noise", "pal16", "gradient", "tiled"}).Draw(t, "content")
			alpha := rapid.SampledFrom([]string{"opaque", "opaque", "gradient", "binary"}).Draw(t, "alpha")
			op := c11Op{Kind: "enc", Img: &gen.Img{W: w, H: h, Kind: "nrgba", Place: "tight", Content: content, Alpha: alpha}}
			op.Img.Pix = gen.RenderContent(w, h, content, alpha, rapid.Uint64().Draw(t, "seed"))
			if rapid.IntRange(0, 2).Draw(t, "lossless") == 0 {
				op.Opts = gen.DrawLosslessOpts(t)
			} else {
				op.Opts = gen.DrawLossyOpts(t, rapid.IntRange(0, 4).Draw(t, "tgt") == 0)
			}
			ops = []c11Op{op}
		} else {
			sub := genC11(t)
			n := rapid.IntRange(1, 2).Draw(t, "keep")
			ops = sub.Ops[:n]
		}
		if first == nil {
			first = ops
		}
		c.Lists = append(c.Lists, ops)
	}
	return c
}

const c10ChildEnv = "VERIF_C10_CHILD"

func checkC10Fresh(c *c10FreshCase, o *core.Obs) error {
	f, err := os.CreateTemp("", "verif-c10fresh-*.json")
	if err != nil {
		o.Inconclusive("temp file: %v", err)
		return nil
	}
	path := f.Name()
	defer os.Remove(path)
	if err := json.NewEncoder(f).Encode(c); err != nil {
		f.Close()
		o.Inconclusive("encode case: %v", err)
		return nil
	}
	f.Close()
	ctx, cancel := context.WithTimeout(context.Background(), 240*time.Second)
	defer cancel()
	cmd := exec.CommandContext(ctx, os.Args[0], "-test.run=^TestC10FreshChild$", "-test.v", "-test.timeout=200s")
	var env []string
	for _, kv := range os.Environ() {
		k := strings.SplitN(kv, "=", 2)[0]
		switch k {
		case "VERIF_OUT", "VERIF_REPLAY", "VERIF_FAILCASE", "VERIF_LASTCASE", "VERIF_DIGEST_OUT", "VERIF_KNOWN":
			continue
		}
		env = append(env, kv)
	}
	cmd.Env = append(env, c10ChildEnv+"="+path)
	out, runErr := cmd.CombinedOutput()
	s := string(out)
	if i := strings.Index(s, "FRESH-FAIL:"); i >= 0 {
		return fmt.Errorf("first concurrent use in a fresh process: %s", clipN(s[i:], 1500))
	}
	if i := strings.Index(s, "WARNING: DATA RACE"); i >= 0 {
		return fmt.Errorf("data race during the first concurrent use in a fresh process:\n%s", clipN(s[i:], 3000))
	}
	if !strings.Contains(s, "FRESH-OK") {
		if ctx.Err() != nil {
			o.Inconclusive("child process exceeded its time budget")
			return nil
		}
		if strings.Contains(s, "panic:") || strings.Contains(s, "fatal error:") {
			return fmt.Errorf("child process crashed during the first concurrent use (%v):\n%s", runErr, clipN(s, 3000))
		}
		o.Inconclusive("child process gave no verdict (%v)", runErr)
		return nil
	}
	total := 0
	kinds := map[string]bool{}
	for _, l := range c.Lists {
		total += len(l)
		for _, op := range l {
			k := op.Kind
			if op.Opts != nil {
				k += fmt.Sprintf("/ll=%v/sharp=%v", op.Opts.Lossless, op.Opts.UseSharpYUV)
			}
			kinds[k] = true
		}
	}
	o.Labelf("fresh-goroutines=%d", bucket(len(c.Lists)))
	o.SampleJSON = map[string]any{"part": "fresh-process", "goroutines": len(c.Lists), "calls": total, "procs": c.Procs}
	var ks []string
	for k := range kinds {
		ks = append(ks, k)
	}
	sort.Strings(ks)
	o.NonTrivial("fresh|g%d|p%d|%v", len(c.Lists), c.Procs, ks)
	return nil
}

func clipN(s string, n int) string {
	if len(s) > n {
		return s[:n] + "..."
	}
	return s
}

func TestC10Fresh(t *testing.T) {
	if os.Getenv(c10ChildEnv) != "" {
		t.Skip("child process")
	}
	core.Run(t, "C10", genC10Fresh, checkC10Fresh)
}

// TestC10FreshChild is the body of the re-executed process: concurrent first, stand-alone after.
func TestC10FreshChild(t *testing.T) {
	path := os.Getenv(c10ChildEnv)
	if path == "" {
		t.Skip("only runs as the child of TestC10Fresh")
	}
	b, err := os.ReadFile(path)
	if err != nil {
		t.Fatalf("child: %v", err)
	}
	var c c10FreshCase
	if err := json.Unmarshal(b, &c); err != nil {
		t.Fatalf("child: %v", err)
	}
	runtime.GOMAXPROCS(c.Procs)
	got := make([][]string, len(c.Lists))
	pan := make([]string, len(c.Lists))
	yieldingWriters.Store(true)
	var wg sync.WaitGroup
	start := make(chan struct{})
	for i := range c.Lists {
		wg.Add(1)
		go func(i int) {
			defer wg.Done()
			defer func() {
				if p := recover(); p != nil {
					pan[i] = fmt.Sprintf("panic in goroutine %d: %v\n%s", i, p, stackTrace())
				}
			}()
			<-start
			for k := range c.Lists[i] {
				got[i] = append(got[i], runC11Op(&c.Lists[i][k]).Digest)
			}
		}(i)
	}
	close(start)
	wg.Wait()
	for _, p := range pan {
		if p != "" {
			fmt.Printf("FRESH-FAIL: %s\n", p)
			return
		}
	}
	for i, l := range c.Lists {
		for k := range l {
			flushPools()
			want := runC11Op(&l[k]).Digest
			if got[i][k] != want {
				fmt.Printf("FRESH-FAIL: goroutine %d call %d (%s %s): got %q when it was among the first concurrent calls of the process, %q when run alone afterwards\n", i, k, l[k].Kind, opDesc(&l[k]), clip(got[i][k]), clip(want))
				return
			}
		}
	}
	fmt.Println("FRESH-OK")
}
