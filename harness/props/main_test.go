package props

import (
	"sync/atomic"
	"testing/iotest"
	"io"
	"bufio"
	"errors"
	"bytes"
	"fmt"
	"image"
	"image/color"
	"os"
	"runtime"
	"testing"

	"github.com/deepteams/webp"
	"github.com/deepteams/webp/verifharness/core"
	"github.com/deepteams/webp/verifharness/gen"
	"pgregory.net/rapid"
)

func TestMain(m *testing.M) {
	code := m.Run()
	core.Flush()
	os.Exit(code)
}

// flushPools empties every sync.Pool so that a following call meets a fresh-process state
// (DESIGN.md section 5, history normalisation).
func flushPools() { runtime.GC(); runtime.GC() }

func encodeImg(img image.Image, o *gen.Opts) ([]byte, error) {
	var buf bytes.Buffer
	var w io.Writer = &buf
	if yieldingWriters.Load() {
		w = &yieldWriter{w: &buf}
	}
	err := webp.Encode(w, img, o.Build())
	return buf.Bytes(), err
}

// yieldingWriters makes encodeImg hand Encode a writer that behaves like a pipe or a socket: every Write gives up the
// processor before and after it takes the bytes, and takes larger writes in two pieces. The concurrency checks switch it
// on while several goroutines run, so that whatever a call still needs after it has handed something back to a pool is
// exposed to the other goroutines (a bytes.Buffer never yields inside Write).
var yieldingWriters atomic.Bool

type yieldWriter struct{ w io.Writer }

func (y *yieldWriter) Write(p []byte) (int, error) {
	runtime.Gosched()
	n := 0
	if len(p) > 64 {
		k, err := y.w.Write(p[:len(p)/2])
		n += k
		if err != nil {
			return n, err
		}
		runtime.Gosched()
		p = p[len(p)/2:]
	}
	k, err := y.w.Write(p)
	runtime.Gosched()
	return n + k, err
}

// readerKinds are legal io.Reader behaviours a caller may hand to the decoding entry points: the
// package's answers must not depend on how the bytes arrive (short reads, one byte at a time,
// data returned together with io.EOF, small buffered readers, no Len method).
var readerKinds = []struct {
	Name string
	New  func(b []byte) io.Reader
}{
	{"plain", func(b []byte) io.Reader { return io.MultiReader(bytes.NewReader(b)) }},
	{"onebyte", func(b []byte) io.Reader { return iotest.OneByteReader(bytes.NewReader(b)) }},
	{"half", func(b []byte) io.Reader { return iotest.HalfReader(bytes.NewReader(b)) }},
	{"dataerr", func(b []byte) io.Reader { return iotest.DataErrReader(bytes.NewReader(b)) }},
	{"bufio16", func(b []byte) io.Reader { return bufio.NewReaderSize(bytes.NewReader(b), 16) }},
	{"bufio4096", func(b []byte) io.Reader { return bufio.NewReaderSize(iotest.HalfReader(bytes.NewReader(b)), 4096) }},
}

// faultWriter accepts budget bytes and then fails: the injected fault for "a write error at byte k".
type faultWriter struct {
	buf    bytes.Buffer
	budget int
	failed bool
}

var errInjectedWrite = errors.New("verif: injected write failure")

func (w *faultWriter) Write(p []byte) (int, error) {
	if w.failed {
		return 0, errInjectedWrite
	}
	if len(p) > w.budget {
		n := w.budget
		w.buf.Write(p[:n])
		w.budget, w.failed = 0, true
		return n, errInjectedWrite
	}
	w.budget -= len(p)
	w.buf.Write(p)
	return len(p), nil
}

// faultBudgets picks byte positions inside a stream of total bytes at which the writer fails:
// container header boundaries, the last bytes (pad byte, trailing chunk), and one drawn position.
func faultBudgets(total, permille int) []int {
	cand := []int{0, 1, 11, 12, 19, 20, 29, 30, total - 2, total - 1, int(int64(total) * int64(permille) / 1000)}
	var out []int
	seen := map[int]bool{}
	for _, c := range cand {
		if c >= 0 && c < total && !seen[c] {
			seen[c] = true
			out = append(out, c)
		}
	}
	return out
}

func decodeBytes(b []byte) (image.Image, error) { return webp.Decode(bytes.NewReader(b)) }

// toNRGBA reads any decoded image as tight non-premultiplied pixels.
func toNRGBA(img image.Image) []color.NRGBA { return gen.Truth(img) }

func pixStr(c color.NRGBA) string { return fmt.Sprintf("(%d,%d,%d,%d)", c.R, c.G, c.B, c.A) }

func absDiff(a, b uint8) int {
	if a > b {
		return int(a - b)
	}
	return int(b - a)
}

func minInt(a, b int) int {
	if a < b {
		return a
	}
	return b
}

// steerSkipHeavy turns a lossy case into a "mostly skipped" one: 97..1200 macroblocks (thin, or squarish), flat ground
// with at most a few textured patches, very low quality. Nearly every macroblock is then coded as skipped, the skip and
// segment-tree probabilities round to their extremes, and the encoder's mid-frame probability refreshes (every
// max(96, N/8) macroblocks) see no new statistics after the first few macroblocks.
func steerSkipHeavy(t *rapid.T, im *gen.Img, o *gen.Opts) {
	mbs := rapid.IntRange(97, 1200).Draw(t, "skipMBs")
	var mbw, mbh int
	switch rapid.IntRange(0, 4).Draw(t, "skipShape") {
	case 0, 1: // 1-3 macroblock rows: the serial encoder for every Method
		mbh = rapid.IntRange(1, 3).Draw(t, "skipRows")
		mbw = minInt((mbs+mbh-1)/mbh, 1023)
	case 2: // 1-3 macroblock columns
		mbw = rapid.IntRange(1, 3).Draw(t, "skipCols")
		mbh = minInt((mbs+mbw-1)/mbw, 1023)
	default:
		mbw = rapid.IntRange(4, 40).Draw(t, "skipMBW")
		mbh = (mbs + mbw - 1) / mbw
	}
	im.W = mbw*16 - rapid.IntRange(0, 15).Draw(t, "skipWrem")
	im.H = mbh*16 - rapid.IntRange(0, 15).Draw(t, "skipHrem")
	im.Content = rapid.SampledFrom([]string{"flat", "flat", "patches", "patches", "patches", "patches", "letterbox", "sparse"}).Draw(t, "skipContent")
	if im.Kind != "nrgba" && im.Kind != "rgba" && im.Kind != "generic" {
		im.Kind = "nrgba"
	}
	if im.W*im.H > 40000 && im.Kind == "generic" {
		im.Kind = "nrgba"
	}
	im.Pix = gen.RenderContent(im.W, im.H, im.Content, im.Alpha, rapid.Uint64().Draw(t, "skipSeed"))
	o.Lossless = false
	o.SetQuality(float32(rapid.SampledFrom([]int{0, 0, 1, 2, 2, 3, 3, 5, 8, 12}).Draw(t, "skipQ")))
	if !rapid.Bool().Draw(t, "skipKeepTarget") {
		o.TargetSize, o.TargetPSNRBits = 0, 0
	}
	im.Recount()
}
