package props

import (
	"bytes"
	"fmt"
	"image"
	"image/color"
	"os"
	"runtime"
	"testing"

	"github.com/deepteams/webp"
	"github.com/deepteams/webp/verifharness/core"
	"github.com/deepteams/webp/verifharness/gen"
)

func TestMain(m *testing.M) {
	code := m.Run()
	core.Flush()
	os.Exit(code)
}

// flushPools empties every sync.Pool so that a following call meets a fresh-process state
// (DESIGN.md section 5, history normalisation).
func flushPools() { runtime.GC(); runtime.GC() }

func encodeImg(img image.Image, o *gen.Opts) ([]byte, error) {
	var buf bytes.Buffer
	err := webp.Encode(&buf, img, o.Build())
	return buf.Bytes(), err
}

func decodeBytes(b []byte) (image.Image, error) { return webp.Decode(bytes.NewReader(b)) }

// toNRGBA reads any decoded image as tight non-premultiplied pixels.
func toNRGBA(img image.Image) []color.NRGBA { return gen.Truth(img) }

func pixStr(c color.NRGBA) string { return fmt.Sprintf("(%d,%d,%d,%d)", c.R, c.G, c.B, c.A) }

func absDiff(a, b uint8) int {
	if a > b {
		return int(a - b)
	}
	return int(b - a)
}
