package props

import (
	"encoding/binary"
	"fmt"
	"runtime"
	"syscall"
	"testing"
	"time"

	"github.com/deepteams/webp/verifharness/core"
	"pgregory.net/rapid"
)

// C05, "time at most proportional to the input length": files made of one to three chunk kinds repeated thousands of
// times behind a VP8X header (the shapes on which a parser that rescans, re-slices or searches per chunk goes
// quadratic). The same recipe is built at n and at 4n repetitions; process CPU time (not wall clock) of all entry
// points is compared. A linear reader needs about 4x, an n*log n one a little more, a quadratic one 16x.

type c05ScaleCase struct {
	Flags byte     // VP8X flags
	Anim  bool     // ANIM chunk after VP8X
	Units []string // chunk kinds repeated cyclically
	Tail  string   // "", or an image chunk that only appears at the very end
	N     int      // repetitions of the small build (the large one is 4N)
}

var tinyVP8L = []byte{0x2f, 0x00, 0x00, 0x00, 0x00, 0x88, 0x88, 0x08} // 1x1, one transparent-black pixel (simple codes)

func scaleUnit(kind string, i int) []byte {
	switch kind {
	case "ALPH0":
		return riffChunk("ALPH", nil, true)
	case "ALPH3":
		return riffChunk("ALPH", []byte{0, 1, 2}, true)
	case "UNK":
		return riffChunk("JUNK", []byte{1, 2, 3, 4}, true)
	case "UNK-odd":
		return riffChunk("abcd", []byte{1, 2, 3}, true)
	case "ICCP":
		return riffChunk("ICCP", []byte("icc"), true)
	case "EXIF":
		return riffChunk("EXIF", []byte("exif"), true)
	case "XMP":
		return riffChunk("XMP ", []byte("<x/>"), true)
	case "VP8X":
		return riffChunk("VP8X", vp8xPayload(0x10, 16, 16), true)
	case "ANIM":
		return riffChunk("ANIM", make([]byte, 6), true)
	case "VP8-bad":
		return riffChunk("VP8 ", []byte{0x10, 0, 0, 0x9d, 0x01, 0x2a, 1, 0, 1, 0}, true)
	case "VP8L":
		return riffChunk("VP8L", tinyVP8L, true)
	case "ANMF-empty":
		h := make([]byte, 16)
		return riffChunk("ANMF", h, true)
	case "ANMF-alph":
		h := make([]byte, 16)
		return riffChunk("ANMF", append(h, riffChunk("ALPH", nil, true)...), true)
	case "ANMF-unk":
		h := make([]byte, 16)
		binary.LittleEndian.PutUint16(h[12:], uint16(i))
		p := append(h, riffChunk("JUNK", []byte{9}, true)...)
		return riffChunk("ANMF", append(p, riffChunk("VP8L", tinyVP8L, true)...), true)
	default: // "ANMF": a complete 1x1 frame
		h := make([]byte, 16)
		h[12] = 10
		return riffChunk("ANMF", append(h, riffChunk("VP8L", tinyVP8L, true)...), true)
	}
}

var scaleKinds = []string{"ALPH0", "ALPH3", "UNK", "UNK-odd", "ICCP", "EXIF", "XMP", "VP8X", "ANIM", "VP8-bad", "VP8L", "ANMF-empty", "ANMF-alph", "ANMF-unk", "ANMF"}

func (c *c05ScaleCase) build(n int) []byte {
	chunks := [][]byte{riffChunk("VP8X", vp8xPayload(c.Flags, 16, 16), true)}
	if c.Anim {
		chunks = append(chunks, riffChunk("ANIM", make([]byte, 6), true))
	}
	for i := 0; i < n; i++ {
		chunks = append(chunks, scaleUnit(c.Units[i%len(c.Units)], i))
	}
	if c.Tail != "" {
		chunks = append(chunks, scaleUnit(c.Tail, 0))
	}
	return riffFile(chunks...)
}

func genC05Scale(t *rapid.T) *c05ScaleCase {
	c := &c05ScaleCase{
		Flags: rapid.SampledFrom([]byte{0, 0x02, 0x10, 0x12, 0x3e, 0x2c}).Draw(t, "flags"),
		Anim:  rapid.Bool().Draw(t, "anim"),
		Tail:  rapid.SampledFrom([]string{"", "", "VP8L", "VP8-bad", "ANMF"}).Draw(t, "tail"),
		N:     rapid.SampledFrom([]int{3000, 6000, 9000}).Draw(t, "n"),
	}
	for k := rapid.IntRange(1, 3).Draw(t, "kinds"); k > 0; k-- {
		c.Units = append(c.Units, rapid.SampledFrom(scaleKinds).Draw(t, "unit"))
	}
	return c
}

func cpuNow() time.Duration {
	var ru syscall.Rusage
	syscall.Getrusage(syscall.RUSAGE_SELF, &ru)
	return time.Duration(ru.Utime.Nano() + ru.Stime.Nano())
}

func cpuOfEntryPoints(data []byte) (time.Duration, error, any) {
	runtime.GC()
	var err error
	var pv any
	t0 := cpuNow()
	func() {
		defer func() { pv = recover() }()
		_, err = runEntryPoints(data, true)
	}()
	return cpuNow() - t0, err, pv
}

func checkC05Scale(c *c05ScaleCase, o *core.Obs) error {
	small, large := c.build(c.N), c.build(4*c.N)
	var t1, t2 time.Duration
	for round := 0; round < 2; round++ {
		a, err, pv := cpuOfEntryPoints(small)
		if pv != nil {
			return fmt.Errorf("panic in a decoding entry point: %v", pv)
		}
		if err != nil {
			return err
		}
		b, err, pv := cpuOfEntryPoints(large)
		if pv != nil {
			return fmt.Errorf("panic in a decoding entry point: %v", pv)
		}
		if err != nil {
			return err
		}
		t1, t2 = a, b
		base := a
		if base < 25*time.Millisecond {
			base = 25 * time.Millisecond
		}
		if b < 2*time.Second || b < 10*base {
			// linear (or close): done. Only a super-linear first round is measured again.
			t1, t2 = a, b
			break
		}
		if round == 1 {
			return fmt.Errorf("time grows faster than the input: %d repetitions of %v (%d bytes) take %v CPU, %d repetitions (%d bytes) take %v (x%.1f for x4 input; confirmed twice)",
				c.N, c.Units, len(small), a, 4*c.N, len(large), b, float64(b)/float64(a))
		}
	}
	core.AddExtra("scaling_cases", 1)
	o.Label("scale-units=" + fmt.Sprint(len(c.Units)))
	o.Label("scale-tail=" + c.Tail)
	o.SampleJSON = map[string]any{"units": c.Units, "flags": c.Flags, "anim": c.Anim, "tail": c.Tail, "n": c.N, "cpu_small_ms": t1.Milliseconds(), "cpu_large_ms": t2.Milliseconds()}
	o.NonTrivial("%v|%v|%x|%s", c.Units, c.Anim, c.Flags, c.Tail)
	return nil
}

func TestC05Scaling(t *testing.T) { core.Run(t, "C05", genC05Scale, checkC05Scale) }
