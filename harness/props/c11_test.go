package props

import (
	"github.com/deepteams/webp/mux"
	"bytes"
	"io"
	"strings"
	"crypto/sha256"
	"fmt"
	"image"
	"runtime/debug"
	"sync"
	"testing"

	"github.com/deepteams/webp"
	"github.com/deepteams/webp/animation"
	"github.com/deepteams/webp/internal/verifhook"
	"github.com/deepteams/webp/verifharness/core"
	"github.com/deepteams/webp/verifharness/gen"
	"github.com/deepteams/webp/verifharness/ref/xref"
	"pgregory.net/rapid"
)

// C11: results do not depend on what was encoded or decoded before.

type c11Op struct {
	Kind string // enc | dec | cfg | animenc | animdec
	Img  *gen.Img
	Opts *gen.Opts
	File []byte
	Name string
	Seq  *gen.AnimSeq
	Lossless, Mixed bool
	Mux  []c11MuxFrame // mux: frames handed to a Muxer, assembled, and read back through a Demuxer
	MuxMeta []byte
}

type c11MuxFrame struct {
	Entry           int // index into C14's bitstream pool
	X, Y, Dur       int
	NoBlend, Dispose bool
}

type c11Case struct{ Ops []c11Op }

var c11Sides = []int{1, 7, 16, 17, 24, 31, 32, 33, 48, 64, 65}

func genC11(t *rapid.T) *c11Case {
	c := &c11Case{}
	pool := seeds()
	n := rapid.IntRange(3, 14).Draw(t, "nOps")
	if tierThorough() {
		n = rapid.IntRange(3, 25).Draw(t, "nOpsT")
	}
	// a few sizes shared by the whole history so that equal macroblock dimensions recur
	sz := [][2]int{}
	for i := 0; i < 3; i++ {
		sz = append(sz, [2]int{rapid.SampledFrom(c11Sides).Draw(t, "sw"), rapid.SampledFrom(c11Sides).Draw(t, "sh")})
	}
	// focus: a fifth of the histories consist mostly of decodes of freshly generated VP8 (or VP8L)
	// streams with the history's shared sizes: header syntax no encoder here writes (segment data
	// without a map, deltas, per-segment filter levels, ...) meets a pooled decoder that has just
	// handled another such stream of the same or a larger size
	focus := rapid.SampledFrom([]string{"", "", "", "", "", "", "", "", "vp8", "vp8l"}).Draw(t, "focus")
	for i := 0; i < n; i++ {
		op := c11Op{Kind: rapid.SampledFrom([]string{"enc", "enc", "enc", "enc", "dec", "dec", "cfg", "animenc", "animdec", "mux", "frameenc"}).Draw(t, "op")}
		if focus != "" && rapid.IntRange(0, 4).Draw(t, "focusOp") != 0 {
			op.Kind = "dec"
			d := sz[rapid.IntRange(0, len(sz)-1).Draw(t, "fszi")]
			if focus == "vp8" {
				p := gen.DrawVP8(t, 40)
				p.W, p.H = d[0], d[1]
				op.Name, op.File = "vp8gen", xref.Simple("VP8 ", p.Build())
			} else {
				p := gen.DrawVP8L(t, 24)
				p.W, p.H = d[0], d[1]
				bs, _ := p.Build()
				op.Name, op.File = "vp8lgen", xref.Simple("VP8L", bs)
			}
			if rapid.IntRange(0, 5).Draw(t, "focusCut") == 0 {
				op.File = gen.TruncateFix(op.File, rapid.IntRange(0, len(op.File)).Draw(t, "cutfix"))
				op.Name += "/cutfix"
			}
			c.Ops = append(c.Ops, op)
			continue
		}
		switch op.Kind {
		case "enc", "frameenc":
			d := sz[rapid.IntRange(0, len(sz)-1).Draw(t, "szi")]
			w, h := d[0], d[1]
			if rapid.IntRange(0, 3).Draw(t, "jitter") == 0 { // same macroblock count, other pixel size
				w = (w+15)/16*16 - rapid.IntRange(0, 15).Draw(t, "jw")
				if w < 1 {
					w = 1
				}
			}
			content := rapid.SampledFrom([]string{"photo", "pal4", "pal16", "noise", "tiled", "gradient", "flat"}).Draw(t, "content")
			alpha := rapid.SampledFrom([]string{"opaque", "opaque", "binary", "gradient", "levels"}).Draw(t, "alpha")
			op.Img = &gen.Img{W: w, H: h, Kind: rapid.SampledFrom([]string{"nrgba", "nrgba", "rgba", "generic"}).Draw(t, "kind"), Place: "tight", Content: content, Alpha: alpha}
			op.Img.Pix = gen.RenderContent(w, h, content, alpha, rapid.Uint64().Draw(t, "seed"))
			if rapid.IntRange(0, 2).Draw(t, "lossless") == 0 {
				op.Opts = gen.DrawLosslessOpts(t)
			} else {
				op.Opts = gen.DrawLossyOpts(t, rapid.IntRange(0, 4).Draw(t, "tgt") == 0)
			}
			if op.Kind == "frameenc" {
				// the exported frame-codec hooks of the animation package, called directly: their results are
				// plain byte slices that the caller (the muxer, or anyone) keeps while later frames are encoded
				op.Lossless = rapid.IntRange(0, 2).Draw(t, "feLossless") > 0
				op.Mixed = rapid.Bool().Draw(t, "feSimple") // reused field: call SimpleEncodeFunc instead of FrameEncoderFunc
				op.Opts = nil
			}
		case "dec", "cfg":
			s := pool[rapid.IntRange(0, len(pool)-1).Draw(t, "seedIdx")]
			op.Name = s.Name
			op.File = s.Data
			if g := rapid.IntRange(0, 7).Draw(t, "generated"); g == 3 || g == 4 {
				// a freshly generated stream using syntax no encoder here writes (palette indices beyond the
				// palette, predictor modes 14/15, every code shape ...): decoder state those leave behind,
				// or pick up from earlier calls, is not reachable with encoder output
				bs, _ := gen.DrawVP8L(t, 24).Build()
				op.Name, op.File = "vp8lgen", xref.Simple("VP8L", bs)
			} else if g == 5 {
				op.Name, op.File = "vp8gen", xref.Simple("VP8 ", gen.DrawVP8(t, 40).Build())
			}
			switch rapid.IntRange(0, 4).Draw(t, "damage") {
			case 4: // truncated, with every enclosing size field rewritten: the error surfaces inside the bitstream decoder
				op.File = gen.TruncateFix(op.File, rapid.IntRange(0, len(op.File)).Draw(t, "cutfix"))
				op.Name += "/cutfix"
			case 0: // truncated
				op.File = op.File[:rapid.IntRange(0, len(op.File)).Draw(t, "cut")]
				op.Name += "/cut"
			case 1: // bit flip
				b := append([]byte(nil), op.File...)
				p := rapid.IntRange(0, len(b)-1).Draw(t, "flipAt")
				b[p] ^= 1 << uint(rapid.IntRange(0, 7).Draw(t, "flipBit"))
				op.File = b
				op.Name += "/flip"
			}
		case "mux":
			bp := bitstreamPool()
			for k := rapid.IntRange(1, 4).Draw(t, "muxFrames"); k > 0; k-- {
				op.Mux = append(op.Mux, c11MuxFrame{Entry: rapid.IntRange(0, len(bp)-1).Draw(t, "muxBs"), X: 2 * rapid.IntRange(0, 4).Draw(t, "mx"), Y: 2 * rapid.IntRange(0, 4).Draw(t, "my"),
					Dur: rapid.IntRange(0, 90).Draw(t, "mdur"), NoBlend: rapid.Bool().Draw(t, "mnb"), Dispose: rapid.Bool().Draw(t, "mdisp")})
			}
			if rapid.Bool().Draw(t, "muxMeta") {
				op.MuxMeta, _ = gen.DrawBlob(t, "muxBlob", 40)
			}
		case "animenc":
			op.Seq = gen.DrawAnimSeq(t, 20, 4, 1, []string{"opaque", "binary", "levels"})
			op.Lossless = rapid.Bool().Draw(t, "alossless")
			op.Mixed = rapid.Bool().Draw(t, "amixed")
		case "animdec":
			var anims []seedFile
			for _, s := range pool {
				if len(s.Name) > 4 && (s.Name[:4] == "anim" || s.Name[:4] == "mux-") {
					anims = append(anims, s)
				}
			}
			s := anims[rapid.IntRange(0, len(anims)-1).Draw(t, "animIdx")]
			op.Name, op.File = s.Name, s.Data
		}
		c.Ops = append(c.Ops, op)
	}
	return c
}

// c11Result is the observable outcome of one call, plus the returned objects (kept alive so
// later calls could corrupt them) and their checksums.
type c11Result struct {
	Digest string
	objs   [][]byte // backing buffers of returned values
	sums   [][32]byte
}

func (r *c11Result) keep(b []byte) {
	r.objs = append(r.objs, b)
	r.sums = append(r.sums, sha256.Sum256(b))
}

func (r *c11Result) intact() bool {
	for i, b := range r.objs {
		if sha256.Sum256(b) != r.sums[i] {
			return false
		}
	}
	return true
}

func digestImage(r *c11Result, img image.Image, err error) string {
	if err != nil {
		return "err:" + err.Error()
	}
	v := viewOf(img, nil)
	switch m := img.(type) {
	case *image.NRGBA:
		r.keep(m.Pix)
	case *image.YCbCr:
		r.keep(m.Y)
		r.keep(m.Cb)
		r.keep(m.Cr)
	}
	return fmt.Sprintf("%s %v %x", v.Type, v.Bounds, sha256.Sum256(v.Pix))
}

func runC11Op(op *c11Op) *c11Result {
	r := &c11Result{}
	switch op.Kind {
	case "enc":
		img := op.Img.Build()
		if b := op.Img.Backing(); b != nil {
			r.keep(b) // the caller's image must not be modified either
		}
		out, err := encodeImg(img, op.Opts)
		if err != nil {
			r.Digest = "err:" + err.Error()
		} else {
			r.keep(out)
			r.Digest = fmt.Sprintf("bytes %d %x", len(out), sha256.Sum256(out))
		}
	case "frameenc":
		img := op.Img.Build()
		if b := op.Img.Backing(); b != nil {
			r.keep(b)
		}
		var out []byte
		var err error
		if op.Mixed {
			out, err = animation.SimpleEncodeFunc(img, op.Lossless, 70)
		} else {
			out, err = animation.FrameEncoderFunc(img, op.Lossless, 70)
		}
		if err != nil {
			r.Digest = "err:" + err.Error()
		} else {
			r.keep(out)
			r.Digest = fmt.Sprintf("frame bytes %d %x", len(out), sha256.Sum256(out))
		}
	case "dec":
		img, err := webp.Decode(bytes.NewReader(op.File))
		r.Digest = digestImage(r, img, err)
		// the same bytes through a reader without Len() (other read path) must give the same result
		img2, err2 := webp.Decode(io.MultiReader(bytes.NewReader(op.File)))
		if d2 := digestImage(&c11Result{}, img2, err2); d2 != r.Digest {
			r.Digest = "READER-TYPE-DEPENDENT: bytes.Reader -> " + r.Digest + " ; plain io.Reader -> " + d2
		}
	case "cfg":
		cfg, err := webp.DecodeConfig(bytes.NewReader(op.File))
		ft, err2 := webp.GetFeatures(bytes.NewReader(op.File))
		r.Digest = fmt.Sprintf("%v %dx%d %p | %v %+v", err, cfg.Width, cfg.Height, cfg.ColorModel, err2, ft)
	case "mux":
		bp := bitstreamPool()
		m := mux.NewMuxer()
		for _, f := range op.Mux {
			e := bp[f.Entry%len(bp)]
			data := e.Bitstream
			if e.Alph != nil {
				pre := append([]byte("ALPH"), byte(len(e.Alph)), byte(len(e.Alph)>>8), byte(len(e.Alph)>>16), 0)
				pre = append(pre, e.Alph...)
				if len(e.Alph)&1 == 1 {
					pre = append(pre, 0)
				}
				data = append(pre, e.Bitstream...)
			}
			fo := &mux.FrameOptions{Duration: f.Dur, OffsetX: f.X, OffsetY: f.Y}
			if f.NoBlend {
				fo.BlendMode = mux.BlendNone
			}
			if f.Dispose {
				fo.DisposeMode = mux.DisposeBackground
			}
			r.keep(data)
			if err := m.AddFrame(data, fo); err != nil {
				r.Digest += "addframe-err:" + err.Error() + ";"
			}
		}
		if len(op.MuxMeta) > 0 {
			m.SetEXIF(op.MuxMeta)
			r.keep(op.MuxMeta)
		}
		var buf bytes.Buffer
		if err := m.Assemble(&buf); err != nil {
			r.Digest += "assemble-err:" + err.Error()
			break
		}
		out := buf.Bytes()
		r.keep(out)
		r.Digest += fmt.Sprintf("mux %d %x", len(out), sha256.Sum256(out))
		if d, err := mux.NewDemuxer(out); err != nil {
			r.Digest += " demux-err:" + err.Error()
		} else {
			h := sha256.New()
			for i := 0; i < d.NumFrames(); i++ {
				if fr, err := d.Frame(i); err == nil && fr != nil {
					fmt.Fprintf(h, "%d,%d,%d,%d,%d,%v,%v|", fr.OffsetX, fr.OffsetY, fr.Width, fr.Height, fr.Duration, fr.BlendMode, fr.DisposeMode)
					h.Write(fr.Data)
					h.Write(fr.AlphaData)
				} else {
					fmt.Fprintf(h, "frame-err %v|", err)
				}
			}
			r.Digest += fmt.Sprintf(" demux %d %+v loop%d %x", d.NumFrames(), d.GetFeatures(), d.LoopCount(), h.Sum(nil))
		}
	case "animenc":
		imgs, durs := seqImages(op.Seq)
		out, err := animEncode(op.Seq.CW, op.Seq.CH, imgs, durs, &animation.EncodeOptions{Lossless: op.Lossless, AllowMixed: op.Mixed, Quality: 70, Kmin: op.Seq.Kmin, Kmax: op.Seq.Kmax}, nil, nil, nil, false)
		if err != nil {
			r.Digest = "err:" + err.Error()
		} else {
			r.keep(out)
			r.Digest = fmt.Sprintf("anim %d %x", len(out), sha256.Sum256(out))
		}
	case "animdec":
		// frames decoded one by one and with DecodeFramesParallel must agree
		if an, e := animation.DecodeBytes(op.File); e == nil {
			an2, _ := animation.DecodeBytes(op.File)
			e1, e2 := an.DecodeFrames(), an2.DecodeFramesParallel()
			if (e1 == nil) != (e2 == nil) {
				r.Digest = fmt.Sprintf("PARALLEL-DECODE-DIFFERS: DecodeFrames err=%v DecodeFramesParallel err=%v", e1, e2)
				break
			}
			if e1 == nil {
				for i := range an.Frames {
					a, b := an.Frames[i].Image, an2.Frames[i].Image
					if (a == nil) != (b == nil) || (a != nil && !bytes.Equal(viewOf(a, nil).Pix, viewOf(b, nil).Pix)) {
						r.Digest = fmt.Sprintf("PARALLEL-DECODE-DIFFERS: frame %d", i)
					}
				}
				if r.Digest != "" {
					break
				}
			}
		}
		pb, err := playback(op.File)
		if err != nil {
			r.Digest = "err:" + err.Error()
		} else {
			h := sha256.New()
			for i, c := range pb.Canvases {
				h.Write(c.Pix)
				fmt.Fprint(h, pb.Durations[i])
				r.keep(c.Pix)
			}
			r.Digest = fmt.Sprintf("playback %d %x", len(pb.Canvases), h.Sum(nil))
		}
	}
	return r
}

func checkC11(c *c11Case, o *core.Obs) error {
	hookMu.Lock()
	defer hookMu.Unlock()
	// 1. the history, with the GC off so that pooled objects survive between calls
	flushPools()
	old := debug.SetGCPercent(-1)
	hits := map[string]int{}
	var hmu sync.Mutex
	verifhook.OnPool = func(name string, hit bool) {
		if hit {
			hmu.Lock()
			hits[name]++
			hmu.Unlock()
		}
	}
	var hist []*c11Result
	var corrupt error
	for i := range c.Ops {
		r := runC11Op(&c.Ops[i])
		for k, prev := range hist {
			if !prev.intact() && corrupt == nil {
				corrupt = fmt.Errorf("a value returned by (or passed to) call %d (%s) was modified by call %d (%s)", k, c.Ops[k].Kind, i, c.Ops[i].Kind)
			}
		}
		hist = append(hist, r)
	}
	verifhook.OnPool = nil
	debug.SetGCPercent(old)
	if corrupt != nil {
		return corrupt
	}
	// 2. every call again from a fresh (flushed-pool) state
	pairs := ""
	for i := range c.Ops {
		flushPools()
		b := runC11Op(&c.Ops[i])
		if strings.HasPrefix(b.Digest, "READER-TYPE-DEPENDENT") || strings.HasPrefix(b.Digest, "PARALLEL-DECODE-DIFFERS") {
			return fmt.Errorf("call %d (%s %s): %s", i, c.Ops[i].Kind, opDesc(&c.Ops[i]), clip(b.Digest))
		}
		if b.Digest != hist[i].Digest {
			prev := "none"
			if i > 0 {
				prev = c.Ops[i-1].Kind + ":" + opDesc(&c.Ops[i-1])
			}
			return fmt.Errorf("call %d (%s %s) returns %q after the history but %q in a fresh state (previous call: %s)", i, c.Ops[i].Kind, opDesc(&c.Ops[i]), clip(hist[i].Digest), clip(b.Digest), prev)
		}
		if i > 0 {
			pairs += c.Ops[i-1].Kind[:2] + ">" + c.Ops[i].Kind[:2] + " "
		}
	}
	total := 0
	for n, k := range hits {
		total += k
		o.Label("poolhit=" + n)
	}
	o.Labelf("ops=%d", bucket(len(c.Ops)))
	seenKind := map[string]bool{}
	for i := range c.Ops {
		k := c.Ops[i].Kind
		if k == "dec" && (strings.HasPrefix(c.Ops[i].Name, "vp8gen") || strings.HasPrefix(c.Ops[i].Name, "vp8lgen")) {
			k = "dec-generated"
		}
		if !seenKind[k] {
			seenKind[k] = true
			o.Label("history_has=" + k)
		}
	}
	o.SampleJSON = map[string]any{"ops": opList(c), "pool_hits": hits}
	if total > 0 {
		o.NonTrivial("%s|%v", pairs, len(hits))
	}
	return nil
}

func clip(s string) string {
	if len(s) > 90 {
		return s[:90] + "..."
	}
	return s
}

func opDesc(op *c11Op) string {
	switch op.Kind {
	case "enc":
		return fmt.Sprintf("%dx%d %s/%s lossless=%v m%d q%v", op.Img.W, op.Img.H, op.Img.Content, op.Img.Alpha, op.Opts.Lossless, op.Opts.Method, op.Opts.Quality())
	case "frameenc":
		return fmt.Sprintf("%dx%d %s/%s lossless=%v simple=%v", op.Img.W, op.Img.H, op.Img.Content, op.Img.Alpha, op.Lossless, op.Mixed)
	case "dec", "cfg", "animdec":
		return op.Name
	case "mux":
		return fmt.Sprintf("%d frames meta=%d", len(op.Mux), len(op.MuxMeta))
	default:
		return fmt.Sprintf("%dx%d x%d lossless=%v mixed=%v", op.Seq.CW, op.Seq.CH, len(op.Seq.Frames), op.Lossless, op.Mixed)
	}
}

func opList(c *c11Case) []string {
	var out []string
	for i := range c.Ops {
		out = append(out, c.Ops[i].Kind+" "+opDesc(&c.Ops[i]))
	}
	return out
}

func TestC11(t *testing.T) { core.Run(t, "C11", genC11, checkC11) }
