package props

import (
	"bufio"
	"bytes"
	"crypto/sha256"
	"encoding/binary"
	"encoding/json"
	"fmt"
	"os"
	"sync"
	"testing"

	"github.com/deepteams/webp/internal/dsp"
	"github.com/deepteams/webp/internal/lossy"
	"github.com/deepteams/webp/verifharness/core"
	"github.com/deepteams/webp/verifharness/gen"
	"github.com/deepteams/webp/verifharness/ref/xref"
	"pgregory.net/rapid"
)

// C13: results do not depend on CPU-specific code paths or architecture.
//
// Each case computes a digest of what the package returns. The same cases (same rapid seed) are
// evaluated by three builds/settings of the package - AVX2, SSE2 only (WEBP_VERIF_NOAVX2=1) and
// portable Go (overlay build without the amd64 files) - and the driver compares the digests.

var (
	digestMu  sync.Mutex
	digestOut *bufio.Writer
)

func emitDigest(kind string, c any, digest string) {
	p := os.Getenv("VERIF_DIGEST_OUT")
	if p == "" {
		return
	}
	digestMu.Lock()
	defer digestMu.Unlock()
	if digestOut == nil {
		f, err := os.OpenFile(p, os.O_CREATE|os.O_WRONLY|os.O_TRUNC, 0o644)
		if err != nil {
			panic(err)
		}
		digestOut = bufio.NewWriterSize(f, 1<<20)
	}
	b, _ := json.Marshal(map[string]any{"property": "C13", "test": kind, "case": c})
	digestOut.Write(b)
	digestOut.WriteString("\t" + digest + "\n")
	digestOut.Flush()
}

// ---- pipeline level ----

type c13PipeCase struct {
	Kind string // encode | decode-vp8gen
	Img  *gen.Img
	Opts *gen.Opts
	Prog *gen.VP8Prog
}

func genC13Pipe(t *rapid.T) *c13PipeCase {
	c := &c13PipeCase{Kind: rapid.SampledFrom([]string{"encode", "encode", "encode", "decode-vp8gen"}).Draw(t, "kind")}
	if c.Kind == "encode" {
		c.Img = gen.DrawImg(t, gen.ImgCfg{MaxSide: 56, BigChance: 3, BigSide: 130, ThinPermille: 30, LargePermille: 4})
		if rapid.IntRange(0, 2).Draw(t, "lossless") == 0 {
			c.Opts = gen.DrawLosslessOpts(t)
		} else {
			c.Opts = gen.DrawLossyOpts(t, true)
		}
	} else {
		c.Prog = gen.DrawVP8(t, 64)
	}
	return c
}

func pipeDigest(c *c13PipeCase) string {
	switch c.Kind {
	case "encode":
		flushPools()
		b, err := encodeImg(c.Img.Build(), c.Opts)
		if err != nil {
			return "enc-err:" + err.Error()
		}
		img, derr := decodeBytes(b)
		d := "dec-err"
		if derr == nil {
			v := viewOf(img, nil)
			d = fmt.Sprintf("%s %x", v.Type, sha256.Sum256(v.Pix))
		}
		return fmt.Sprintf("enc %d %x | %s", len(b), sha256.Sum256(b), d)
	default:
		img, err := decodeBytes(xref.Simple("VP8 ", c.Prog.Build()))
		if err != nil {
			return "dec-err:" + err.Error()
		}
		v := viewOf(img, nil)
		return fmt.Sprintf("dec %s %x", v.Type, sha256.Sum256(v.Pix))
	}
}

func checkC13Pipe(c *c13PipeCase, o *core.Obs) error {
	d := pipeDigest(c)
	if os.Getenv("VERIF_REPLAY") != "" {
		fmt.Printf("REPLAY-DIGEST %s\n", d)
	}
	emitDigest("TestC13Pipe", c, d)
	o.Label("pipe=" + c.Kind)
	if c.Kind == "encode" {
		o.SampleJSON = map[string]any{"kind": c.Kind, "img": c.Img.Summary(), "opts": c.Opts.Summary()}
		o.NonTrivial("pipe|%v|m%d|%s|%s", c.Opts.Lossless, c.Opts.Method, c.Img.SizeClass(), c.Img.Kind)
	} else {
		o.SampleJSON = map[string]any{"kind": c.Kind, "prog": c.Prog.Summary()}
		o.NonTrivial("pipe|vp8gen|%v|%v|%d", c.Prog.FilterSimple, c.Prog.FilterLevel == 0, c.Prog.TokOnesRun)
	}
	return nil
}

func TestC13Pipe(t *testing.T) { core.Run(t, "C13", genC13Pipe, checkC13Pipe) }

// ---- kernel level ----

type c13KernCase struct {
	Kernel string
	Class  string // uniform | corners | natural
	Seed   uint64
	Mode   int
	Thresh int
	Width  int
}

var c13Kernels = []string{"SSE4x4", "SSE16x16", "SSE4x4Direct", "SSE16x16Direct", "TDisto4x4", "TDisto16x16", "FTransform", "FTransform2", "FTransformDirect", "FTransformWHT",
	"ITransform", "ITransformDirect", "Transform", "TransformUV", "TransformWHT", "TransformDC", "TransformAC3", "TransformDCUV",
	"PredLuma16", "PredChroma8", "PredLuma4", "PredLuma16Direct", "PredChroma8Direct", "PredLuma4Direct",
	"AddGreen", "SubtractGreen", "SimpleVFilter16", "SimpleHFilter16", "VFilter16", "HFilter16", "VFilter8", "HFilter8", "VFilter16i", "HFilter16i", "VFilter8i", "HFilter8i",
	"UpsampleLinePairNRGBA", "DequantCoeffs", "YUVToRGB", "TransformColorInverse", "QuantizeCoeffs"}

func genC13Kern(t *rapid.T) *c13KernCase {
	return &c13KernCase{
		Kernel: rapid.SampledFrom(c13Kernels).Draw(t, "kernel"),
		Class:  rapid.SampledFrom([]string{"uniform", "corners", "natural", "sparse", "sparse"}).Draw(t, "class"),
		Seed:   rapid.Uint64().Draw(t, "seed"),
		Mode:   rapid.IntRange(0, 9).Draw(t, "mode"),
		Thresh: rapid.IntRange(0, 255).Draw(t, "thresh"),
		Width:  drawKernWidth(t),
	}
}

// drawKernWidth: row widths around the SIMD loop strides and the on-stack scratch sizes.
func drawKernWidth(t *rapid.T) int {
	if rapid.IntRange(0, 4).Draw(t, "widthClass") == 0 {
		return rapid.SampledFrom([]int{255, 256, 257, 1023, 1024, 1025, 2047, 2048, 2049, 2050, 4095, 4096, 4097, 6145, 8193}).Draw(t, "widthBig")
	}
	return rapid.IntRange(1, 70).Draw(t, "width")
}

func kernBytes(r *gen.Rng, class string, n int) []byte {
	b := make([]byte, n)
	corners := []byte{0, 1, 2, 127, 128, 129, 254, 255}
	base := r.Byte()
	for i := range b {
		switch class {
		case "uniform":
			b[i] = r.Byte()
		case "corners":
			b[i] = corners[r.Intn(len(corners))]
		default: // natural (also used for the byte inputs of the "sparse" coefficient class): smooth with small noise
			b[i] = byte(int(base) + i%7 + r.Intn(5) - 2)
		}
	}
	return b
}

// kernCoeffs: decoder-side coefficients may be any int16 (they come from the bitstream);
// encoder-side kernels only ever see coefficients derived from byte residuals.
func kernCoeffs(r *gen.Rng, class string, n int, decoderSide bool) []int16 {
	c := make([]int16, n)
	ext := []int16{0, 1, -1, 2047, -2048, 32767, -32768, 16384, -16384, 8191, -8192, 255, -255}
	if class == "sparse" {
		// one to three non-zero coefficients of log-uniform magnitude: the sum of magnitudes sweeps
		// the whole range in which 16-bit SIMD lanes are or are not exact
		lim := 15
		if !decoderSide {
			lim = 11 // encoder-side kernels only see what 8-bit residuals can produce (|coeff| <~ 2040)
		}
		for blk := 0; blk+16 <= n || blk == 0; blk += 16 {
			k := 1 + r.Intn(3)
			for j := 0; j < k; j++ {
				mag := 1 << uint(4+r.Intn(lim-3))
				mag += r.Intn(mag)
				if mag > 32767 {
					mag = 32767
				}
				if !decoderSide && mag > 2040 {
					mag = 2040
				}
				if r.Intn(2) == 0 {
					mag = -mag
				}
				pos := blk + r.Intn(minI2(16, n-blk))
				c[pos] = int16(mag)
			}
			if blk+16 > n {
				break
			}
		}
		return c
	}
	for i := range c {
		switch {
		case class == "uniform" && decoderSide:
			c[i] = int16(r.U64())
		case class == "corners" && decoderSide:
			c[i] = ext[r.Intn(len(ext))]
		case class == "corners":
			c[i] = []int16{0, 0, 1, -1, 2040, -2040, 255, -255, 1020, -1020}[r.Intn(10)]
			if i > 0 && r.Intn(3) > 0 {
				c[i] = 0
			}
		default:
			if i == 0 {
				c[i] = int16(r.Intn(4081) - 2040)
			} else if r.Intn(3) == 0 {
				c[i] = int16(r.Intn(601) - 300)
			}
		}
	}
	return c
}

func minI2(a, b int) int {
	if a < b {
		return a
	}
	return b
}

func i16bytes(v []int16) []byte {
	b := make([]byte, 2*len(v))
	for i, x := range v {
		binary.LittleEndian.PutUint16(b[2*i:], uint16(x))
	}
	return b
}

func u32bytes(v []uint32) []byte {
	b := make([]byte, 4*len(v))
	for i, x := range v {
		binary.LittleEndian.PutUint32(b[4*i:], x)
	}
	return b
}

func runKernel(c *c13KernCase) []byte {
	r := gen.NewRng(c.Seed)
	const B = dsp.BPS
	buf := func() []byte { return kernBytes(r, c.Class, 48*B) }
	off := 8*B + 8
	intOut := func(v int) []byte { return []byte(fmt.Sprint(v)) }
	switch c.Kernel {
	case "SSE4x4":
		return intOut(dsp.SSE4x4(buf()[off:], buf()[off:]))
	case "SSE16x16":
		return intOut(dsp.SSE16x16(buf()[off:], buf()[off:]))
	case "SSE4x4Direct":
		return intOut(dsp.SSE4x4Direct(buf()[off:], buf()[off:]))
	case "SSE16x16Direct":
		return intOut(dsp.SSE16x16Direct(buf()[off:], buf()[off:]))
	case "TDisto4x4":
		return intOut(dsp.TDisto4x4(buf()[off:], buf()[off:]))
	case "TDisto16x16":
		return intOut(dsp.TDisto16x16(buf()[off:], buf()[off:]))
	case "FTransform", "FTransformDirect", "FTransform2":
		out := make([]int16, 32)
		a, b := buf(), buf()
		switch c.Kernel {
		case "FTransform":
			dsp.FTransform(a[off:], b[off:], out)
		case "FTransformDirect":
			dsp.FTransformDirect(a[off:], b[off:], out)
		default:
			dsp.FTransform2(a[off:], b[off:], out)
		}
		return i16bytes(out)
	case "FTransformWHT":
		in := make([]int16, 256)
		for i := 0; i < 16; i++ {
			in[i*16] = kernCoeffs(r, c.Class, 1, false)[0]
		}
		out := make([]int16, 16)
		dsp.FTransformWHT(in, out)
		return i16bytes(out)
	case "ITransform", "ITransformDirect":
		ref, dst := buf(), buf()
		in := kernCoeffs(r, c.Class, 32, false)
		two := c.Mode&1 == 1
		if c.Kernel == "ITransform" {
			dsp.ITransform(ref[off:], in, dst[off:], two)
		} else {
			dsp.ITransformDirect(ref[off:], in, dst[off:], two)
		}
		return dst
	case "Transform":
		dst := buf()
		dsp.Transform(kernCoeffs(r, c.Class, 32, true), dst[off:], c.Mode&1 == 1)
		return dst
	case "TransformUV":
		dst := buf()
		dsp.TransformUV(kernCoeffs(r, c.Class, 64, true), dst[off:])
		return dst
	case "TransformDC":
		dst := buf()
		dsp.TransformDC(kernCoeffs(r, c.Class, 16, true), dst[off:])
		return dst
	case "TransformAC3":
		dst := buf()
		in := kernCoeffs(r, c.Class, 16, true)
		for i := range in {
			if i != 0 && i != 1 && i != 4 {
				in[i] = 0
			}
		}
		dsp.TransformAC3(in, dst[off:])
		return dst
	case "TransformDCUV":
		dst := buf()
		dsp.TransformDCUV(kernCoeffs(r, c.Class, 64, true), dst[off:])
		return dst
	case "TransformWHT":
		out := make([]int16, 256)
		dsp.TransformWHT(kernCoeffs(r, c.Class, 16, true), out)
		return i16bytes(out)
	case "PredLuma16":
		b := buf()
		dsp.PredLuma16[c.Mode%7](b, off)
		return b
	case "PredChroma8":
		b := buf()
		dsp.PredChroma8[c.Mode%7](b, off)
		return b
	case "PredLuma4":
		b := buf()
		dsp.PredLuma4[c.Mode%10](b, off)
		return b
	case "PredLuma16Direct":
		b := buf()
		dsp.PredLuma16Direct(c.Mode%7, b, off)
		return b
	case "PredChroma8Direct":
		b := buf()
		dsp.PredChroma8Direct(c.Mode%7, b, off)
		return b
	case "PredLuma4Direct":
		b := buf()
		dsp.PredLuma4Direct(c.Mode%10, b, off)
		return b
	case "AddGreen", "SubtractGreen":
		n := 1 + c.Width*3
		px := make([]uint32, n)
		raw := kernBytes(r, c.Class, 4*n)
		for i := range px {
			px[i] = binary.LittleEndian.Uint32(raw[4*i:])
		}
		if c.Kernel == "AddGreen" {
			dsp.AddGreenToBlueAndRed(px, n)
		} else {
			dsp.SubtractGreen(px, n)
		}
		return u32bytes(px)
	case "SimpleVFilter16", "SimpleHFilter16", "VFilter16", "HFilter16", "VFilter16i", "HFilter16i":
		b := buf()
		th := c.Thresh
		ith, hev := c.Thresh%64, c.Thresh%4
		switch c.Kernel {
		case "SimpleVFilter16":
			dsp.SimpleVFilter16(b, off, B, th)
		case "SimpleHFilter16":
			dsp.SimpleHFilter16(b, off, B, th)
		case "VFilter16":
			dsp.VFilter16(b, off, B, th, ith, hev)
		case "HFilter16":
			dsp.HFilter16(b, off, B, th, ith, hev)
		case "VFilter16i":
			dsp.VFilter16i(b, off, B, th, ith, hev)
		default:
			dsp.HFilter16i(b, off, B, th, ith, hev)
		}
		return b
	case "VFilter8", "HFilter8", "VFilter8i", "HFilter8i":
		u, v := buf(), buf()
		th, ith, hev := c.Thresh, c.Thresh%64, c.Thresh%4
		switch c.Kernel {
		case "VFilter8":
			dsp.VFilter8(u, v, off, off, B, th, ith, hev)
		case "HFilter8":
			dsp.HFilter8(u, v, off, off, B, th, ith, hev)
		case "VFilter8i":
			dsp.VFilter8i(u, v, off, off, B, th, ith, hev)
		default:
			dsp.HFilter8i(u, v, off, off, B, th, ith, hev)
		}
		return append(u, v...)
	case "UpsampleLinePairNRGBA":
		w := c.Width
		cw := (w + 1) / 2
		ty, by := kernBytes(r, c.Class, w), kernBytes(r, c.Class, w)
		tu, tv, bu, bv := kernBytes(r, c.Class, cw), kernBytes(r, c.Class, cw), kernBytes(r, c.Class, cw), kernBytes(r, c.Class, cw)
		at, ab := kernBytes(r, c.Class, w), kernBytes(r, c.Class, w)
		td, bd := make([]byte, w*4), make([]byte, w*4)
		if c.Mode&1 == 0 {
			dsp.UpsampleLinePairNRGBA(ty, by, tu, tv, bu, bv, td, bd, at, ab, w)
		} else {
			dsp.UpsampleLinePairNRGBA(ty, nil, tu, tv, bu, bv, td, nil, at, nil, w)
		}
		return append(td, bd...)
	case "QuantizeCoeffs":
		// the encoder's real matrices (libwebp's ExpandMatrix: QFIX 17, bias tables, Y1 sharpening) for
		// EVERY quantiser index of the drawn plane type; half of the cases put the inputs on the
		// rounding boundaries (v+sharpen)*iq+bias = L<<17 (+-1), where an off-by-one in a threshold shows
		typ := c.Mode % 3
		first := (c.Mode / 3) % 2
		var all []byte
		for qi := 0; qi < 128; qi++ {
			dcq, acq := int(lossy.KDcTable[qi]), int(lossy.KAcTable[qi])
			switch typ {
			case 1:
				dcq, acq = dcq*2, int(lossy.KAcTable2[qi])
			case 2:
				if qi > 117 {
					dcq = int(lossy.KDcTable[117])
				}
			}
			bias := [3][2]int{{96, 110}, {96, 108}, {110, 115}}[typ]
			sq := &lossy.SegmentQuant{DCQuant: dcq, DCIQuant: (1 << 17) / dcq, DCBias: bias[0] << 9, Quant: acq, IQuant: (1 << 17) / acq, Bias: bias[1] << 9}
			sq.DCZthresh = ((1 << 17) - 1 - sq.DCBias) / sq.DCIQuant
			sq.Zthresh = ((1 << 17) - 1 - sq.Bias) / sq.IQuant
			if typ == 0 {
				sharp := [16]int{0, 30, 60, 90, 30, 60, 90, 90, 60, 90, 90, 90, 90, 90, 90, 90}
				for i := range sq.Sharpen {
					q := acq
					if i == 0 {
						q = dcq
					}
					sq.Sharpen[i] = int16((sharp[i] * q) >> 11)
				}
			}
			in := kernCoeffs(r, c.Class, 16, false)
			if c.Seed&1 == 0 {
				for i := range in {
					iq, b := sq.IQuant, sq.Bias
					if i == 0 {
						iq, b = sq.DCIQuant, sq.DCBias
					}
					level := r.Intn(4)
					if r.Intn(8) == 0 {
						level = 2040 + r.Intn(12) // around the 2047 clamp
					}
					v := ((level<<17)-b+iq-1)/iq - int(sq.Sharpen[i]) + r.Intn(3) - 1
					if v < 0 {
						v = 0
					}
					lim := 2040 // what the forward DCT of 8-bit residuals can produce
					if typ == 1 {
						lim = 16320 // forward WHT of sixteen such DC values
					}
					if v > lim {
						v = lim
					}
					if r.Intn(2) == 0 {
						v = -v
					}
					in[i] = int16(v)
				}
			}
			out := make([]int16, 16)
			nz := lossy.QuantizeCoeffs(in, out, sq, first)
			all = append(all, i16bytes(out)...)
			all = append(all, byte(nz))
		}
		return all
	case "DequantCoeffs":
		in := kernCoeffs(r, c.Class, 16, false)
		out := make([]int16, 16)
		sq := &lossy.SegmentQuant{Quant: 1 + c.Thresh%157, DCQuant: 1 + (c.Thresh*7)%157}
		lossy.DequantCoeffs(in, out, sq)
		return i16bytes(out)
	case "YUVToRGB":
		rgb := make([]byte, 3)
		b := kernBytes(r, c.Class, 3)
		dsp.YUVToRGB(int(b[0]), int(b[1]), int(b[2]), rgb)
		return rgb
	case "TransformColorInverse":
		n := 1 + c.Width
		px := make([]uint32, n)
		raw := kernBytes(r, c.Class, 4*n)
		for i := range px {
			px[i] = binary.LittleEndian.Uint32(raw[4*i:])
		}
		m := &dsp.Multipliers{GreenToRed: r.Byte(), GreenToBlue: r.Byte(), RedToBlue: r.Byte()}
		dst := make([]uint32, n)
		dsp.TransformColorInverse(m, px, n, dst)
		return u32bytes(dst)
	}
	panic("unknown kernel " + c.Kernel)
}

func checkC13Kern(c *c13KernCase, o *core.Obs) error {
	out := runKernel(c)
	d := fmt.Sprintf("%x", sha256.Sum256(out))
	if os.Getenv("VERIF_REPLAY") != "" {
		fmt.Printf("REPLAY-DIGEST %s\n", d)
	}
	emitDigest("TestC13Kern", c, d)
	o.Label("kernel=" + c.Kernel)
	o.SampleJSON = c
	if !bytes.Equal(out, make([]byte, len(out))) {
		o.NonTrivial("kern|%s|%s|%d", c.Kernel, c.Class, c.Mode)
	}
	return nil
}

func TestC13Kern(t *testing.T) { core.Run(t, "C13", genC13Kern, checkC13Kern) }
