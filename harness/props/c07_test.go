package props

import (
	"fmt"
	"image"
	"testing"

	"github.com/deepteams/webp/verifharness/core"
	"github.com/deepteams/webp/verifharness/gen"
	"github.com/deepteams/webp/verifharness/ref/cref"
	"github.com/deepteams/webp/verifharness/ref/riffwalk"
	"pgregory.net/rapid"
)

// C07: lossy encoding preserves the alpha channel exactly by default.

type c07Case struct {
	Img  *gen.Img
	Opts *gen.Opts
}

func genC07(t *rapid.T) *c07Case {
	cfg := gen.ImgCfg{MaxSide: 48, BigChance: 3, BigSide: 150, ThinPermille: 8, LargePermille: 5}
	if tierThorough() {
		cfg = gen.ImgCfg{MaxSide: 72, BigChance: 3, BigSide: 320, ThinPermille: 8, LargePermille: 5}
	}
	// bias toward pictures that do carry transparency
	cfg.Alphas = []string{"opaque", "binary", "binary", "levels", "levels", "gradient", "noise", "transparent", "transp-colored", "semi-flat", "late", "early", "holes"}
	c := &c07Case{Img: gen.DrawImg(t, cfg), Opts: gen.DrawLossyOpts(t, false)}
	if rapid.IntRange(0, 24).Draw(t, "skipHeavy") == 11 {
		steerSkipHeavy(t, c.Img, c.Opts)
	}
	return c
}

func alphaLevels(q int) int {
	if q <= 70 {
		return 2 + q/5
	}
	return 16 + (q-70)*8
}

func checkC07(c *c07Case, o *core.Obs) error {
	img := c.Img.Build()
	src := gen.Truth(img)
	data, err := encodeImg(img, c.Opts)
	if err != nil {
		return fmt.Errorf("Encode rejected a valid request: %v", err)
	}
	rf, err := riffwalk.Parse(data)
	if err != nil {
		return fmt.Errorf("structure: %v", err)
	}
	fr := rf.Frames[0]
	dec, err := decodeBytes(data)
	if err != nil {
		return fmt.Errorf("Decode: %v", err)
	}
	if dec.Bounds().Dx() != c.Img.W || dec.Bounds().Dy() != c.Img.H {
		return fmt.Errorf("decoded size %v", dec.Bounds())
	}
	transp := srcHasTransparency(src)
	aq := c.Opts.AlphaQuality
	if aq < 0 {
		aq = 100
	}
	o.Label("alpha=" + c.Img.Alpha)
	o.Labelf("ac=%d af=%d", c.Opts.AlphaCompression, c.Opts.AlphaFiltering)
	o.Labelf("aq100=%v", aq == 100)
	o.Labelf("method=%d", c.Opts.Method)
	o.SampleJSON = map[string]any{"img": c.Img.Summary(), "opts": c.Opts.Summary(), "alph_bytes": len(fr.Alph)}
	if !transp {
		if fr.HasAlph || (rf.HasVP8X && rf.Flags&riffwalk.FlagAlpha != 0) {
			return fmt.Errorf("opaque source but file carries alpha")
		}
		switch m := dec.(type) {
		case *image.YCbCr:
		default:
			for _, p := range toNRGBA(m) {
				if p.A != 255 {
					return fmt.Errorf("opaque source decodes with alpha %d", p.A)
				}
			}
		}
		return nil
	}
	if !fr.HasAlph {
		return fmt.Errorf("source has transparency but no ALPH chunk was written")
	}
	hdr := fr.Alph[0]
	o.Labelf("alph_method=%d filter=%d prep=%d", hdr&3, (hdr>>2)&3, (hdr>>4)&3)
	got := toNRGBA(dec)
	levelsSeen := map[uint8]bool{}
	srcLevels := map[uint8]bool{}
	smin, smax := uint8(255), uint8(0)
	for i, p := range src {
		srcLevels[p.A] = true
		levelsSeen[got[i].A] = true
		if p.A < smin {
			smin = p.A
		}
		if p.A > smax {
			smax = p.A
		}
	}
	if len(srcLevels) >= 2 {
		o.NonTrivial("%s|lv%d|m%d f%d|M%d|q%v", c.Img.Alpha, bucket(len(srcLevels)), hdr&3, (hdr>>2)&3, c.Opts.Method, aq == 100)
	}
	if aq == 100 {
		for i, p := range src {
			if got[i].A != p.A {
				return fmt.Errorf("alpha at (%d,%d): source %d decoded %d (AlphaQuality 100, ALPH header %#x)", i%c.Img.W, i/c.Img.W, p.A, got[i].A, hdr)
			}
		}
	} else {
		if n, max := len(levelsSeen), alphaLevels(aq); n > max && n > len(srcLevels) {
			return fmt.Errorf("AlphaQuality %d: %d distinct decoded alpha values, documented maximum %d", aq, n, max)
		}
		gmin, gmax := uint8(255), uint8(0)
		for _, p := range got {
			if p.A < gmin {
				gmin = p.A
			}
			if p.A > gmax {
				gmax = p.A
			}
		}
		if gmin != smin || gmax != smax {
			return fmt.Errorf("AlphaQuality %d: source alpha range [%d,%d], decoded [%d,%d]", aq, smin, smax, gmin, gmax)
		}
	}
	// witness: libwebp's alpha for the same file must equal the package's
	if cref.Available() {
		if w1, ww, hh, ok := cref.DecodeRGBA(data); ok && ww == c.Img.W && hh == c.Img.H {
			for i := range got {
				if w1[i*4+3] != got[i].A {
					return fmt.Errorf("alpha at pixel %d: package %d, libwebp %d", i, got[i].A, w1[i*4+3])
				}
			}
		} else {
			return fmt.Errorf("libwebp rejects the lossy+alpha file")
		}
	}
	return nil
}

func bucket(n int) int {
	switch {
	case n <= 2:
		return 2
	case n <= 16:
		return 16
	case n <= 64:
		return 64
	default:
		return 256
	}
}

func TestC07(t *testing.T) { core.Run(t, "C07", genC07, checkC07) }
