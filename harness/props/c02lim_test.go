package props

import (
	"bytes"
	"fmt"
	"image"
	"testing"

	"github.com/deepteams/webp"
	"github.com/deepteams/webp/verifharness/core"
	"github.com/deepteams/webp/verifharness/gen"
	"pgregory.net/rapid"
)

// C02, bit-field limits of the VP8 frame header: the first partition's length is a 19-bit field
// and every token partition but the last has a 24-bit size field. Pictures are sized so that the
// encoder's partitions land on both sides of those limits (about 4.6 bytes of partition 0 per
// macroblock for noise at mid quality with Method >= 3, measured). Whatever Encode does - succeed or
// refuse - a nil error must come with a file that validates and decodes.

type c02LimCase struct {
	Kind     string // "p0" (19-bit first partition) | "token" (24-bit token partition size)
	W, H     int
	Seed     uint64
	Q        int
	Method   int
	Parts    int
	Segments int
}

func genC02Lim(t *rapid.T) *c02LimCase {
	c := &c02LimCase{Kind: "p0", Seed: rapid.Uint64().Draw(t, "seed")}
	if tierThorough() && rapid.IntRange(0, 7).Draw(t, "tokenKind") == 0 {
		// 2 partitions of ~35 MB each at quality 100: the first one's size does not fit 24 bits
		c.Kind = "token"
		c.W, c.H = 16383, rapid.IntRange(3600, 4300).Draw(t, "h")
		c.Q, c.Method, c.Parts, c.Segments = 100, rapid.IntRange(0, 2).Draw(t, "m"), rapid.IntRange(1, 2).Draw(t, "parts"), rapid.IntRange(1, 4).Draw(t, "seg")
		return c
	}
	// macroblock count between 70,000 and 160,000 = partition 0 between ~320 KB and ~740 KB
	c.W = rapid.SampledFrom([]int{16383, 16383, 12000, 9000, 6000}).Draw(t, "w")
	mbw := (c.W + 15) / 16
	mbs := rapid.IntRange(70000, 160000).Draw(t, "mbs")
	c.H = mbs / mbw * 16
	if c.H > 16383 {
		c.H = 16383
	}
	c.H -= rapid.IntRange(0, 15).Draw(t, "hcut")
	c.Q = rapid.IntRange(35, 80).Draw(t, "q")
	c.Method = rapid.IntRange(3, 6).Draw(t, "m")
	c.Parts = rapid.IntRange(0, 3).Draw(t, "parts")
	c.Segments = rapid.IntRange(1, 4).Draw(t, "seg")
	return c
}

func checkC02Lim(c *c02LimCase, o *core.Obs) error {
	pix := gen.RenderContent(c.W, c.H, "noise", "opaque", c.Seed)
	img := &image.NRGBA{Pix: pix, Stride: 4 * c.W, Rect: image.Rect(0, 0, c.W, c.H)}
	opts := gen.FromDefault()
	opts.NoMeta()
	opts.SetQuality(float32(c.Q))
	opts.Method, opts.Partitions, opts.Segments = c.Method, c.Parts, c.Segments
	data, err := encodeImg(img, opts)
	img, pix = nil, nil
	o.Label("kind=" + c.Kind)
	o.SampleJSON = map[string]any{"case": c, "bytes": len(data), "err": fmt.Sprint(err)}
	o.NonTrivial("%s|%v|m%d|p%d", c.Kind, err == nil, c.Method, c.Parts)
	if err != nil {
		// refusing a picture whose partitions cannot be expressed is what the reference encoder does
		o.Label("encode=refused")
		return nil
	}
	o.Label("encode=accepted")
	rf, verr := validateEncoded(data, c.W, c.H, false, opts)
	if verr != nil {
		return verr
	}
	fr := rf.Frames[0]
	if fr.VP8 != nil {
		o.Labelf("part0>=256KiB=%v", fr.VP8.Part0Size >= 1<<18)
		big := false
		for _, ps := range fr.VP8.PartSizes {
			if ps >= 1<<23 {
				big = true
			}
		}
		o.Labelf("tokenpart>=8MiB=%v", big)
	}
	if _, err := webp.DecodeConfig(bytes.NewReader(data)); err != nil {
		return fmt.Errorf("DecodeConfig rejects Encode's output: %v", err)
	}
	d := diffStill(&stillParts{File: data, Bitstream: fr.Bitstream, Lossless: false, W: c.W, H: c.H})
	if d.RepoErr != nil {
		return fmt.Errorf("Encode reported success (%d bytes, %dx%d) for a stream Decode rejects: %v", len(data), c.W, c.H, d.RepoErr)
	}
	if d.WitnessAccept < d.WitnessTotal {
		return fmt.Errorf("Encode reported success for a stream an independent decoder rejects: %s", d.WitnessNote)
	}
	if !d.Truth {
		o.Inconclusive("witnesses disagree: %s", d.WitnessNote)
		return nil
	}
	if d.Mismatch != "" {
		return fmt.Errorf("package and independent decoders differ on Encode's output: %s", d.Mismatch)
	}
	return nil
}

func TestC02Limits(t *testing.T) { core.Run(t, "C02", genC02Lim, checkC02Lim) }
