package props

import (
	"fmt"
	"image"
	"time"

	"github.com/deepteams/webp/animation"
)

// playbackResult is what a viewer sees: canvases in order with their durations.
type playbackResult struct {
	W, H      int
	Loop      int
	Canvases  []*image.NRGBA
	Durations []time.Duration
	Anim      *animation.Animation
}

// playback reads, decodes all frames and reconstructs the canvases (the property's definition
// of "plays back").
func playback(data []byte) (*playbackResult, error) {
	an, err := animation.DecodeBytes(data)
	if err != nil {
		return nil, fmt.Errorf("DecodeBytes: %w", err)
	}
	if err := an.DecodeFrames(); err != nil {
		return nil, fmt.Errorf("DecodeFrames: %w", err)
	}
	dec, err := animation.NewAnimDecoder(an)
	if err != nil {
		return nil, fmt.Errorf("NewAnimDecoder: %w", err)
	}
	r := &playbackResult{W: an.CanvasWidth, H: an.CanvasHeight, Loop: an.LoopCount, Anim: an}
	for dec.HasNext() {
		c, d, err := dec.NextFrame()
		if err != nil {
			return nil, fmt.Errorf("NextFrame %d: %w", len(r.Canvases), err)
		}
		r.Canvases = append(r.Canvases, c)
		r.Durations = append(r.Durations, d)
	}
	return r, nil
}

// canvasDiff returns the index of the first pixel that differs between two canvases, treating
// fully transparent pixels as equal whatever their colour; -1 if none; -2 if sizes differ.
func canvasDiff(a, b *image.NRGBA) int {
	if a.Rect != b.Rect {
		return -2
	}
	w, h := a.Rect.Dx(), a.Rect.Dy()
	for y := 0; y < h; y++ {
		for x := 0; x < w; x++ {
			i, j := y*a.Stride+x*4, y*b.Stride+x*4
			if a.Pix[i+3] == 0 && b.Pix[j+3] == 0 {
				continue
			}
			if a.Pix[i] != b.Pix[j] || a.Pix[i+1] != b.Pix[j+1] || a.Pix[i+2] != b.Pix[j+2] || a.Pix[i+3] != b.Pix[j+3] {
				return y*w + x
			}
		}
	}
	return -1
}
