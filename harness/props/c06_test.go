package props

import (
	"math"
	"bytes"
	"fmt"
	"image"
	"runtime"
	"testing"

	"github.com/deepteams/webp/internal/verifhook"
	"github.com/deepteams/webp/verifharness/core"
	"github.com/deepteams/webp/verifharness/gen"
	"github.com/deepteams/webp/verifharness/ref/riffwalk"
	"github.com/deepteams/webp/verifharness/ref/xref"
	"github.com/deepteams/webp/verifharness/ref/xvp8"
	"pgregory.net/rapid"
)

// C06: lossy decode equals the encoder's own reconstruction (no drift).

type c06Case struct {
	Img   *gen.Img
	Opts  *gen.Opts
	Procs int
}

func genC06(t *rapid.T) *c06Case {
	cfg := gen.ImgCfg{MaxSide: 70, BigChance: 6, BigSide: 140}
	if tierThorough() {
		cfg.MaxSide, cfg.BigSide = 100, 300
	}
	c := &c06Case{Img: gen.DrawImg(t, cfg), Opts: gen.DrawLossyOpts(t, true)}
	// half of the cases: loop filter off in the stream (FilterStrength 0) => direct plane equality
	if rapid.Bool().Draw(t, "filterOff") {
		c.Opts.FilterStrength = 0
	}
	c.Procs = rapid.SampledFrom([]int{1, 4, 4}).Draw(t, "procs")
	if rapid.IntRange(0, 2).Draw(t, "wantParallel") == 0 {
		// steer into the row-parallel encoder: >=4 macroblock rows, Method>=3, no target search
		c.Img.H = rapid.IntRange(49, 130).Draw(t, "parH")
		c.Img.W = rapid.IntRange(1, 70).Draw(t, "parW")
		c.Img.Pix = gen.RenderContent(c.Img.W, c.Img.H, fixContent(c.Img.Content), c.Img.Alpha, c.Img.Garbage)
		c.Procs = rapid.SampledFrom([]int{2, 3, 4, 8}).Draw(t, "parProcs")
		c.Opts.Method = rapid.IntRange(3, 6).Draw(t, "parMethod")
		c.Opts.TargetSize, c.Opts.TargetPSNRBits = 0, 0
	}
	if v := rapid.IntRange(0, 79).Draw(t, "large"); v >= 41 && v <= 44 {
		// >= 510 macroblocks: rounded segment-tree and skip probabilities saturate (255) while a handful of
		// blocks still sit on the other branch; one texture with a few outlier blocks makes such maps
		c.Img.W = rapid.IntRange(400, 640).Draw(t, "largeW")
		c.Img.H = rapid.IntRange(336, 640).Draw(t, "largeH")
		c.Img.Content = rapid.SampledFrom([]string{"outlier", "outlier", "outlier", "sparse", "regions"}).Draw(t, "largeContent")
		c.Img.Kind, c.Img.Place, c.Img.OX, c.Img.OY = "nrgba", "tight", 0, 0
		c.Img.Pix = gen.RenderContent(c.Img.W, c.Img.H, c.Img.Content, c.Img.Alpha, c.Img.Garbage)
		c.Opts.Segments = rapid.SampledFrom([]int{2, 2, 2, 3, 4}).Draw(t, "largeSegments")
		if c.Opts.SNSStrength == 0 && rapid.IntRange(0, 3).Draw(t, "largeSNS") > 0 {
			c.Opts.SNSStrength = rapid.IntRange(1, 100).Draw(t, "largeSNSv")
		}
		c.Opts.TargetSize, c.Opts.TargetPSNRBits = 0, 0
		if c.Opts.Pass > 3 {
			c.Opts.Pass = 3
		}
	}
	if rapid.IntRange(0, 15).Draw(t, "skipHeavy") == 11 {
		steerSkipHeavy(t, c.Img, c.Opts)
	}
	if v := rapid.IntRange(0, 59).Draw(t, "medium"); v >= 20 && v <= 23 {
		// 100..440 macroblocks with a rate-control target: several passes over a picture large enough for
		// the encoder's mid-frame probability refreshes, with flat bars so that runs of skipped
		// macroblocks fall before or after a refresh point
		c.Img.W = rapid.IntRange(160, 336).Draw(t, "medW")
		c.Img.H = rapid.IntRange(160, 336).Draw(t, "medH")
		c.Img.Content = rapid.SampledFrom([]string{"letterbox", "letterbox", "letterbox", "photo", "bands", "regions", "sparse"}).Draw(t, "medContent")
		c.Img.Kind, c.Img.Place, c.Img.OX, c.Img.OY = "nrgba", "tight", 0, 0
		c.Img.Pix = gen.RenderContent(c.Img.W, c.Img.H, c.Img.Content, c.Img.Alpha, c.Img.Garbage)
		if rapid.IntRange(0, 3).Draw(t, "medTarget") > 0 {
			if rapid.Bool().Draw(t, "medSize") {
				c.Opts.TargetSize = rapid.IntRange(600, 30000).Draw(t, "medTargetSize")
				c.Opts.TargetPSNRBits = 0
			} else {
				c.Opts.TargetSize = 0
				c.Opts.TargetPSNRBits = math.Float32bits(float32(rapid.IntRange(25, 48).Draw(t, "medPSNR")))
			}
			c.Opts.Pass = rapid.IntRange(2, 6).Draw(t, "medPass")
		}
	}
	return c
}

type planes struct {
	W, H    int
	Y, U, V []byte
}

func capturePlanes(y, u, v []byte, ys, uvs, w, h int) *planes {
	cw, ch := (w+1)/2, (h+1)/2
	p := &planes{W: w, H: h, Y: make([]byte, w*h), U: make([]byte, cw*ch), V: make([]byte, cw*ch)}
	for j := 0; j < h; j++ {
		copy(p.Y[j*w:(j+1)*w], y[j*ys:j*ys+w])
	}
	for j := 0; j < ch; j++ {
		copy(p.U[j*cw:(j+1)*cw], u[j*uvs:j*uvs+cw])
		copy(p.V[j*cw:(j+1)*cw], v[j*uvs:j*uvs+cw])
	}
	return p
}

func (p *planes) diff(y, u, v []byte) string {
	cw := (p.W + 1) / 2
	if i := firstDiff(p.Y, y); i >= 0 {
		return fmt.Sprintf("Y(%d,%d): reconstruction %d, decoded %d", i%p.W, i/p.W, p.Y[i], y[i])
	}
	if i := firstDiff(p.U, u); i >= 0 {
		return fmt.Sprintf("Cb(%d,%d): reconstruction %d, decoded %d", i%cw, i/cw, p.U[i], u[i])
	}
	if i := firstDiff(p.V, v); i >= 0 {
		return fmt.Sprintf("Cr(%d,%d): reconstruction %d, decoded %d", i%cw, i/cw, p.V[i], v[i])
	}
	return ""
}

func checkC06(c *c06Case, o *core.Obs) error {
	img := c.Img.Build()
	var recon *planes
	passes := 0
	verifhook.OnFrameEncoded = func(y, u, v []byte, ys, uvs, w, h int) {
		recon = capturePlanes(y, u, v, ys, uvs, w, h)
		passes++
	}
	old := runtime.GOMAXPROCS(c.Procs)
	data, err := encodeImg(img, c.Opts)
	runtime.GOMAXPROCS(old)
	verifhook.OnFrameEncoded = nil
	if err != nil {
		return fmt.Errorf("Encode rejected a valid request: %v", err)
	}
	if recon == nil {
		return fmt.Errorf("harness: FrameEncoded hook did not fire (build without -tags verif?)")
	}
	rf, err := riffwalk.Parse(data)
	if err != nil {
		return fmt.Errorf("structure: %v", err)
	}
	fr := rf.Frames[0]
	if fr.BW != c.Img.W || fr.BH != c.Img.H || recon.W != c.Img.W || recon.H != c.Img.H {
		return fmt.Errorf("size: source %dx%d stream %dx%d reconstruction %dx%d", c.Img.W, c.Img.H, fr.BW, fr.BH, recon.W, recon.H)
	}
	mbH := (c.Img.H + 15) / 16
	parallel := c.Procs > 1 && mbH >= 4 && c.Opts.Method >= 3 && c.Opts.TargetSize == 0 && c.Opts.TargetPSNRBits == 0
	o.Labelf("path_parallel=%v", parallel)
	o.Labelf("method=%d", c.Opts.Method)
	o.Labelf("filter_level0=%v", fr.VP8.FilterLevel == 0)
	o.Labelf("passes=%d", passes)
	o.Labelf("segments_on=%v partitions=%d", fr.VP8.SegEnabled, fr.VP8.NumPartitions)
	if c.Opts.TargetSize > 0 || c.Opts.TargetPSNRBits != 0 {
		o.Label("target=yes")
	}
	o.SampleJSON = map[string]any{"img": c.Img.Summary(), "opts": c.Opts.Summary(), "procs": c.Procs, "filter_level": fr.VP8.FilterLevel, "passes": passes}
	if c.Img.Colors >= 2 {
		o.NonTrivial("par%v|m%d|seg%v|f0%v|pass%d|sharp%v|t%v|prep%d", parallel, c.Opts.Method, fr.VP8.SegEnabled, fr.VP8.FilterLevel == 0, passes, c.Opts.UseSharpYUV, c.Opts.TargetSize > 0 || c.Opts.TargetPSNRBits != 0, c.Opts.Preprocessing)
	}
	simple := xref.Simple("VP8 ", fr.Bitstream)
	// (b1) independent decoder without the loop filter
	d := xvp8.NewDecoder()
	d.SkipLoopFilter = true
	d.Init(bytes.NewReader(fr.Bitstream), len(fr.Bitstream))
	if _, err := d.DecodeFrameHeader(); err != nil {
		return fmt.Errorf("independent decoder rejects the stream header: %v", err)
	}
	xm, err := d.DecodeFrame()
	if err != nil {
		return fmt.Errorf("independent decoder rejects the stream: %v", err)
	}
	xp := capturePlanesYCbCr(xm)
	if s := recon.diff(xp.Y, xp.U, xp.V); s != "" {
		return fmt.Errorf("pre-deblocking picture of an independent decoder differs from the encoder's reconstruction: %s", s)
	}
	// (b2) the package's decoder without the loop filter
	verifhook.SetNoLoopFilter(true)
	pm, err := decodeBytes(simple)
	verifhook.SetNoLoopFilter(false)
	if err != nil {
		return fmt.Errorf("Decode (filter skipped): %v", err)
	}
	py, pu, pv := tightYCbCr(pm.(*image.YCbCr))
	if s := recon.diff(py, pu, pv); s != "" {
		return fmt.Errorf("package decoder (loop filter skipped) differs from the encoder's reconstruction: %s", s)
	}
	// (a) filter off in the stream: the ordinary public Decode must equal the reconstruction
	if fr.VP8.FilterLevel == 0 {
		m, err := decodeBytes(simple)
		if err != nil {
			return fmt.Errorf("Decode: %v", err)
		}
		yy, uu, vv := tightYCbCr(m.(*image.YCbCr))
		if s := recon.diff(yy, uu, vv); s != "" {
			return fmt.Errorf("loop filter disabled, decoded planes differ from the encoder's reconstruction: %s", s)
		}
	}
	// (c) decoded size
	full, err := decodeBytes(data)
	if err != nil {
		return fmt.Errorf("Decode: %v", err)
	}
	if full.Bounds().Dx() != c.Img.W || full.Bounds().Dy() != c.Img.H {
		return fmt.Errorf("decoded size %v, source %dx%d", full.Bounds(), c.Img.W, c.Img.H)
	}
	return nil
}

func capturePlanesYCbCr(m *image.YCbCr) *planes {
	b := m.Rect
	w, h := b.Dx(), b.Dy()
	cw, ch := (w+1)/2, (h+1)/2
	p := &planes{W: w, H: h, Y: make([]byte, w*h), U: make([]byte, cw*ch), V: make([]byte, cw*ch)}
	for j := 0; j < h; j++ {
		o := m.YOffset(b.Min.X, b.Min.Y+j)
		copy(p.Y[j*w:(j+1)*w], m.Y[o:o+w])
	}
	for j := 0; j < ch; j++ {
		o := m.COffset(b.Min.X, b.Min.Y+2*j)
		copy(p.U[j*cw:(j+1)*cw], m.Cb[o:o+cw])
		copy(p.V[j*cw:(j+1)*cw], m.Cr[o:o+cw])
	}
	return p
}

func TestC06(t *testing.T) { core.Run(t, "C06", genC06, checkC06) }
