package props

import (
	"image/color"
	"bytes"
	"fmt"
	"runtime"
	"sort"
	"sync"
	"testing"

	"github.com/deepteams/webp/animation"
	"github.com/deepteams/webp/internal/verifhook"
	"github.com/deepteams/webp/verifharness/core"
	"github.com/deepteams/webp/verifharness/gen"
	"pgregory.net/rapid"
)

// C12, animation part: the animation encoder's output and the frames DecodeFramesParallel returns do
// not depend on GOMAXPROCS (the frame-parallel decoder sizes its worker pool from it).

type c12AnimCase struct {
	Seq             *gen.AnimSeq
	Lossless, Mixed bool
	Procs           []int
}

func genC12Anim(t *rapid.T) *c12AnimCase {
	c := &c12AnimCase{Seq: gen.DrawAnimSeq(t, 40, 10, 1, []string{"opaque", "binary", "levels", "semi-flat"}),
		Lossless: rapid.Bool().Draw(t, "lossless"), Mixed: rapid.Bool().Draw(t, "mixed")}
	set := map[int]bool{1: true}
	for len(set) < 4 {
		set[rapid.SampledFrom([]int{2, 3, 4, 5, 8, 16, 32}).Draw(t, "p")] = true
	}
	for p := range set {
		c.Procs = append(c.Procs, p)
	}
	sort.Ints(c.Procs)
	return c
}

func checkC12Anim(c *c12AnimCase, o *core.Obs) error {
	hookMu.Lock()
	defer hookMu.Unlock()
	imgs, durs := seqImages(c.Seq)
	eo := &animation.EncodeOptions{Lossless: c.Lossless, AllowMixed: c.Mixed, Quality: 70, Kmin: c.Seq.Kmin, Kmax: c.Seq.Kmax, LoopCount: clampLoop(c.Seq.Loop), BackgroundColor: color.NRGBA{R: c.Seq.BG[0], G: c.Seq.BG[1], B: c.Seq.BG[2], A: c.Seq.BG[3]}}
	var ref []byte
	var refFrames [][]byte
	engaged := map[string]bool{}
	var mu sync.Mutex
	for i, p := range c.Procs {
		verifhook.OnWorkers = func(site string, n int) int {
			if n > 1 {
				mu.Lock()
				engaged[site] = true
				mu.Unlock()
			}
			return n
		}
		old := runtime.GOMAXPROCS(p)
		flushPools()
		out, err := animEncode(c.Seq.CW, c.Seq.CH, imgs, durs, eo, nil, nil, nil, false)
		var frames [][]byte
		var derr error
		if err == nil {
			var an *animation.Animation
			if an, derr = animation.DecodeBytes(out); derr == nil {
				if derr = an.DecodeFramesParallel(); derr == nil {
					for _, f := range an.Frames {
						frames = append(frames, viewOf(f.Image, nil).Pix)
					}
				}
			}
		}
		runtime.GOMAXPROCS(old)
		verifhook.OnWorkers = nil
		if err != nil {
			return fmt.Errorf("animation encode at GOMAXPROCS=%d: %v", p, err)
		}
		if derr != nil {
			return fmt.Errorf("DecodeFramesParallel at GOMAXPROCS=%d: %v", p, derr)
		}
		if i == 0 {
			ref, refFrames = out, frames
			continue
		}
		if !bytes.Equal(ref, out) {
			return fmt.Errorf("animation bytes differ between GOMAXPROCS=1 (%d bytes) and GOMAXPROCS=%d (%d bytes)", len(ref), p, len(out))
		}
		if len(frames) != len(refFrames) {
			return fmt.Errorf("DecodeFramesParallel returns %d frames at GOMAXPROCS=%d, %d at GOMAXPROCS=1", len(frames), p, len(refFrames))
		}
		for k := range frames {
			if !bytes.Equal(frames[k], refFrames[k]) {
				return fmt.Errorf("DecodeFramesParallel: frame %d differs between GOMAXPROCS=1 and GOMAXPROCS=%d", k, p)
			}
		}
	}
	var ss []string
	for s := range engaged {
		ss = append(ss, s)
		o.Label("site=" + s)
	}
	sort.Strings(ss)
	o.Label("codec=animation")
	o.SampleJSON = map[string]any{"anim": c.Seq.Summary(), "lossless": c.Lossless, "mixed": c.Mixed, "procs": c.Procs, "frames_in_file": len(refFrames), "sites_engaged": ss}
	if len(refFrames) >= 2 && engaged["anim.decodeframes"] {
		o.NonTrivial("anim|l%v m%v|f%d|%v", c.Lossless, c.Mixed, bucket(len(refFrames)), ss)
	}
	return nil
}

func TestC12Anim(t *testing.T) { core.Run(t, "C12", genC12Anim, checkC12Anim) }
