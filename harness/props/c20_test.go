package props

import (
	"bytes"
	"fmt"
	"image"
	"math"
	"testing"

	"github.com/deepteams/webp"
	"github.com/deepteams/webp/verifharness/core"
	"github.com/deepteams/webp/verifharness/gen"
	"pgregory.net/rapid"
)

// C20: option handling is total and matches its documentation.

type c20Case struct {
	Mode   string // total | sentinel | lossless-only | emulate | nilopts | dims | nilargs
	Img    *gen.Img
	Opts   *gen.Opts
	Field  string // sentinel / lossless-only: which field is substituted
	Value  int    // substituted value
	DimW   int    // dims mode
	DimH   int
	NilArg string // nilargs: writer | image
}

var extremeInts = []int{math.MinInt, math.MinInt32, -1000, -2, -1, 0, 1, 2, 3, 4, 5, 6, 7, 8, 10, 11, 50, 60, 99, 100, 101, 255, 256, 1000, math.MaxInt32, math.MaxInt}
var extremeFloats = []float32{float32(math.NaN()), float32(math.Inf(1)), float32(math.Inf(-1)), float32(math.Copysign(0, -1)), -1e-30, -1, 0, 0.5, 74.99, 75, 100, 100.0001, 101, 1e30, math.MaxFloat32, math.SmallestNonzeroFloat32}

func genC20(t *rapid.T) *c20Case {
	c := &c20Case{}
	c.Mode = rapid.SampledFrom([]string{"total", "total", "total", "sentinel", "sentinel", "lossless-only", "emulate", "nilopts", "dims", "nilargs"}).Draw(t, "mode")
	cfg := gen.ImgCfg{MaxSide: 24, Kinds: []string{"nrgba", "nrgba", "rgba", "gray", "generic", "paletted"}}
	if tierThorough() {
		cfg.MaxSide = 40
	}
	c.Img = gen.DrawImg(t, cfg)
	lossless := rapid.Bool().Draw(t, "lossless")
	if lossless {
		c.Opts = gen.DrawLosslessOpts(t)
	} else {
		c.Opts = gen.DrawLossyOpts(t, true)
	}
	switch c.Mode {
	case "total":
		// overwrite 1..3 fields with boundary / out-of-range values
		n := rapid.IntRange(1, 3).Draw(t, "nFields")
		for i := 0; i < n; i++ {
			f := rapid.SampledFrom(intFields).Draw(t, "field")
			if f == "Quality" || f == "TargetPSNR" {
				v := rapid.SampledFrom(extremeFloats).Draw(t, "fval")
				if f == "Quality" {
					c.Opts.QualityBits = math.Float32bits(v)
				} else {
					c.Opts.TargetPSNRBits = math.Float32bits(v)
				}
				continue
			}
			setIntField(c.Opts, f, rapid.SampledFrom(extremeInts).Draw(t, "ival"))
		}
	case "sentinel":
		c.Opts.Lossless = false
		c.Opts.TargetSize, c.Opts.TargetPSNRBits = 0, 0
		if rapid.IntRange(0, 2).Draw(t, "sentinelTarget") == 0 {
			// a sentinel stands for its default under rate control too: a picture large and busy enough for the
			// quality search to need several passes, with a size or PSNR target
			w, h := rapid.IntRange(48, 128).Draw(t, "stW"), rapid.IntRange(48, 128).Draw(t, "stH")
			content := rapid.SampledFrom([]string{"photo", "photo", "noise", "regions", "gradient"}).Draw(t, "stContent")
			c.Img = &gen.Img{W: w, H: h, Kind: "nrgba", Place: "tight", Content: content, Alpha: "opaque"}
			c.Img.Pix = gen.RenderContent(w, h, content, "opaque", rapid.Uint64().Draw(t, "stSeed"))
			c.Img.Recount()
			if rapid.Bool().Draw(t, "stSize") {
				c.Opts.TargetSize = rapid.SampledFrom([]int{300, 800, 1500, 4000, 9000, 20000}).Draw(t, "stTargetSize")
			} else {
				c.Opts.TargetPSNRBits = math.Float32bits(float32(rapid.IntRange(24, 46).Draw(t, "stPSNR")))
			}
			if c.Opts.Method > 4 {
				c.Opts.Method = 4
			}
		}
		c.Field = rapid.SampledFrom([]string{"SNSStrength", "FilterStrength", "FilterType", "Segments", "Pass", "QMax", "AlphaCompression", "AlphaFiltering", "AlphaQuality"}).Draw(t, "sfield")
		vals := []int{-1, -2, -100, math.MinInt32, math.MinInt}
		if c.Field == "Segments" || c.Field == "Pass" {
			vals = append(vals, 0, 0)
		}
		c.Value = rapid.SampledFrom(vals).Draw(t, "sval")
		if c.Field == "QMax" {
			c.Opts.QMin = rapid.IntRange(0, 100).Draw(t, "qminS")
		}
	case "lossless-only":
		c.Opts.Lossless = true
		c.Field = rapid.SampledFrom([]string{"Preprocessing", "AlphaCompression", "AlphaFiltering", "AlphaQuality"}).Draw(t, "lfield")
		switch c.Field {
		case "Preprocessing":
			c.Value = rapid.IntRange(0, 3).Draw(t, "lval")
		case "AlphaCompression":
			c.Value = rapid.IntRange(-1, 1).Draw(t, "lval")
		case "AlphaFiltering":
			c.Value = rapid.IntRange(-1, 2).Draw(t, "lval")
		default:
			c.Value = rapid.IntRange(-1, 100).Draw(t, "lval")
		}
	case "dims":
		c.DimW = rapid.SampledFrom([]int{0, 1, 16383, 16384, 20000}).Draw(t, "dw")
		c.DimH = rapid.SampledFrom([]int{0, 1, 2}).Draw(t, "dh")
		if rapid.Bool().Draw(t, "swap") {
			c.DimW, c.DimH = c.DimH, c.DimW
		}
		c.Opts.Method = rapid.IntRange(0, 2).Draw(t, "dimMethod")
		c.Opts.Pass, c.Opts.TargetSize, c.Opts.TargetPSNRBits = -1, 0, 0
	case "nilargs":
		c.NilArg = rapid.SampledFrom([]string{"writer", "image"}).Draw(t, "nilarg")
	}
	return c
}

var intFields = []string{"Quality", "TargetPSNR", "Method", "Preset", "TargetSize", "Preprocessing", "SNSStrength", "FilterStrength", "FilterSharpness", "FilterType", "Partitions", "Segments", "Pass", "QMin", "QMax", "AlphaCompression", "AlphaFiltering", "AlphaQuality"}

func setIntField(o *gen.Opts, f string, v int) {
	switch f {
	case "Method":
		o.Method = v
	case "Preset":
		o.Preset = v
	case "TargetSize":
		o.TargetSize = v
	case "Preprocessing":
		o.Preprocessing = v
	case "SNSStrength":
		o.SNSStrength = v
	case "FilterStrength":
		o.FilterStrength = v
	case "FilterSharpness":
		o.FilterSharpness = v
	case "FilterType":
		o.FilterType = v
	case "Partitions":
		o.Partitions = v
	case "Segments":
		o.Segments = v
	case "Pass":
		o.Pass = v
	case "QMin":
		o.QMin = v
	case "QMax":
		o.QMax = v
	case "AlphaCompression":
		o.AlphaCompression = v
	case "AlphaFiltering":
		o.AlphaFiltering = v
	case "AlphaQuality":
		o.AlphaQuality = v
	default:
		panic(f)
	}
}

var sentinelDefault = map[string]int{"SNSStrength": 50, "FilterStrength": 60, "FilterType": 1, "Segments": 4, "Pass": 1, "QMax": 100, "AlphaCompression": 1, "AlphaFiltering": 1, "AlphaQuality": 100}

// documentedValid: the EncoderOptions field documentation (ranges and sentinels).
func documentedValid(o *gen.Opts) (bool, string) {
	fin := func(f float32) bool { return !math.IsNaN(float64(f)) && !math.IsInf(float64(f), 0) }
	q := o.Quality()
	switch {
	case !fin(q) || q < 0 || q > 100:
		return false, "Quality"
	case o.Method < 0 || o.Method > 6:
		return false, "Method"
	case o.Preset < 0 || o.Preset > 5:
		return false, "Preset"
	case o.TargetSize < 0:
		return false, "TargetSize"
	case !fin(o.TargetPSNR()) || o.TargetPSNR() < 0:
		return false, "TargetPSNR"
	case o.Preprocessing < 0 || o.Preprocessing > 3:
		return false, "Preprocessing"
	case o.SNSStrength > 100:
		return false, "SNSStrength"
	case o.FilterStrength > 100:
		return false, "FilterStrength"
	case o.FilterSharpness < 0 || o.FilterSharpness > 7:
		return false, "FilterSharpness"
	case o.FilterType > 1:
		return false, "FilterType"
	case o.Partitions < 0 || o.Partitions > 3:
		return false, "Partitions"
	case o.Segments > 4:
		return false, "Segments"
	case o.Pass > 10:
		return false, "Pass"
	case o.AlphaCompression > 1:
		return false, "AlphaCompression"
	case o.AlphaFiltering > 2:
		return false, "AlphaFiltering"
	case o.AlphaQuality > 100:
		return false, "AlphaQuality"
	}
	qmax := o.QMax
	if qmax < 0 {
		qmax = 100
	}
	if o.QMin < 0 || o.QMin > 100 || qmax > 100 || o.QMin > qmax {
		return false, "QMin/QMax"
	}
	return true, ""
}

func checkC20(c *c20Case, o *core.Obs) error {
	o.Label("mode=" + c.Mode)
	img := c.Img.Build()
	src := gen.Truth(img)
	o.SampleJSON = map[string]any{"mode": c.Mode, "img": c.Img.Summary(), "opts": c.Opts.Summary(), "field": c.Field, "value": c.Value}
	switch c.Mode {
	case "total":
		valid, why := documentedValid(c.Opts)
		data, err := encodeImg(img, c.Opts)
		o.Labelf("valid=%v", valid)
		o.NonTrivial("total|%v|%s|l%v", valid, why, c.Opts.Lossless)
		if !valid {
			if err == nil {
				return fmt.Errorf("Encode accepted an option value outside its documented range (%s): %+v", why, c.Opts.Summary())
			}
			if len(data) != 0 {
				return fmt.Errorf("Encode wrote %d bytes although it returned an error", len(data))
			}
			return nil
		}
		if err != nil {
			return fmt.Errorf("Encode rejected documented-valid options: %v (%+v)", err, c.Opts.Summary())
		}
		if _, err := validateEncoded(data, c.Img.W, c.Img.H, srcHasTransparency(src), c.Opts); err != nil {
			return err
		}
		if _, err := decodeBytes(data); err != nil {
			return fmt.Errorf("output does not decode: %v", err)
		}
	case "sentinel":
		a := *c.Opts
		b := *c.Opts
		setIntField(&a, c.Field, c.Value)
		setIntField(&b, c.Field, sentinelDefault[c.Field])
		if ok, _ := documentedValid(&b); !ok {
			return nil // e.g. QMin > 100 cannot happen; defensive
		}
		flushPools()
		da, ea := encodeImg(img, &a)
		flushPools()
		db, eb := encodeImg(img, &b)
		o.NonTrivial("sentinel|%s|%d", c.Field, sign(c.Value))
		if ea != nil || eb != nil {
			return fmt.Errorf("%s=%d err=%v ; %s=%d err=%v", c.Field, c.Value, ea, c.Field, sentinelDefault[c.Field], eb)
		}
		if !bytes.Equal(da, db) {
			return fmt.Errorf("%s=%d (sentinel) gives different bytes than the documented default %d (len %d vs %d)", c.Field, c.Value, sentinelDefault[c.Field], len(da), len(db))
		}
	case "lossless-only":
		a := *c.Opts
		b := *c.Opts
		setIntField(&b, c.Field, c.Value)
		flushPools()
		da, ea := encodeImg(img, &a)
		flushPools()
		db, eb := encodeImg(img, &b)
		o.NonTrivial("llonly|%s|%d", c.Field, c.Value)
		if ea != nil || eb != nil {
			return fmt.Errorf("lossless encode failed: %v / %v", ea, eb)
		}
		if !bytes.Equal(da, db) {
			return fmt.Errorf("lossy-only option %s=%d changed lossless output", c.Field, c.Value)
		}
	case "emulate":
		a := *c.Opts
		b := *c.Opts
		b.EmulateJpegSize = !a.EmulateJpegSize
		flushPools()
		da, ea := encodeImg(img, &a)
		flushPools()
		db, eb := encodeImg(img, &b)
		o.NonTrivial("emulate|l%v|m%d", c.Opts.Lossless, c.Opts.Method)
		if ea != nil || eb != nil || !bytes.Equal(da, db) {
			return fmt.Errorf("EmulateJpegSize changed the result (err %v / %v, len %d vs %d)", ea, eb, len(da), len(db))
		}
	case "nilopts":
		flushPools()
		var b1, b2 bytes.Buffer
		e1 := webp.Encode(&b1, img, nil)
		flushPools()
		e2 := webp.Encode(&b2, img, webp.DefaultOptions())
		o.NonTrivial("nilopts|%s|%s", c.Img.Kind, c.Img.SizeClass())
		if e1 != nil || e2 != nil || !bytes.Equal(b1.Bytes(), b2.Bytes()) {
			return fmt.Errorf("nil options differ from DefaultOptions(): err %v / %v, len %d vs %d", e1, e2, b1.Len(), b2.Len())
		}
	case "dims":
		im := image.NewNRGBA(image.Rect(0, 0, c.DimW, c.DimH))
		for i := range im.Pix {
			im.Pix[i] = byte(i * 7)
		}
		data, err := encodeImg(im, c.Opts)
		wantErr := c.DimW <= 0 || c.DimH <= 0 || c.DimW > 16383 || c.DimH > 16383
		o.NonTrivial("dims|%d|%d|l%v", c.DimW, c.DimH, c.Opts.Lossless)
		if ok, _ := documentedValid(c.Opts); !ok {
			wantErr = true
		}
		if wantErr && err == nil {
			return fmt.Errorf("Encode accepted a %dx%d image", c.DimW, c.DimH)
		}
		if !wantErr {
			if err != nil {
				return fmt.Errorf("Encode rejected a %dx%d image: %v", c.DimW, c.DimH, err)
			}
			if _, err := validateEncoded(data, c.DimW, c.DimH, srcHasTransparency(gen.Truth(im)), c.Opts); err != nil {
				return err
			}
			d, err := decodeBytes(data)
			if err != nil || d.Bounds().Dx() != c.DimW || d.Bounds().Dy() != c.DimH {
				return fmt.Errorf("boundary-size output does not decode to %dx%d: %v", c.DimW, c.DimH, err)
			}
		}
	case "nilargs":
		var err error
		if c.NilArg == "writer" {
			err = webp.Encode(nil, img, c.Opts.Build())
		} else {
			var b bytes.Buffer
			err = webp.Encode(&b, nil, c.Opts.Build())
		}
		o.NonTrivial("nil|%s|l%v", c.NilArg, c.Opts.Lossless)
		if err == nil {
			return fmt.Errorf("Encode with nil %s returned no error", c.NilArg)
		}
	}
	return nil
}

func sign(v int) int {
	switch {
	case v < -1:
		return -2
	case v < 0:
		return -1
	case v == 0:
		return 0
	}
	return 1
}

func TestC20(t *testing.T) { core.Run(t, "C20", genC20, checkC20) }
