package props

import (
	"reflect"
	"bytes"
	"fmt"
	"sync"
	"testing"

	"github.com/deepteams/webp"
	"github.com/deepteams/webp/internal/container"
	"github.com/deepteams/webp/mux"
	"github.com/deepteams/webp/verifharness/core"
	"github.com/deepteams/webp/verifharness/gen"
	"github.com/deepteams/webp/verifharness/ref/riffwalk"
	"github.com/deepteams/webp/verifharness/ref/xref"
	"pgregory.net/rapid"
)

// C14: muxing then demuxing returns exactly what was put in.

type c14Op struct {
	Kind string // addframe setdispose setduration canvas loop bg icc exif xmp addchunk
	// addframe
	Bitstream []byte
	Alph      []byte // non-nil => data is ALPH-prefixed
	HasAlph   bool
	W, H      int
	NilOpts   bool
	Repeat    int // the same AddFrame call is made Repeat more times (long animations: 1000-chunk and 10000-frame limits)
	Duration  int
	OffX      int
	OffY      int
	BlendNone bool
	DisposeBG bool
	// setters
	Index int
	IVal  int
	IVal2 int
	UVal  uint32
	Blob  []byte
	BlobNil bool
	ChunkID string
}

type c14Case struct {
	Ops []c14Op
	// Arena: every payload handed to the Muxer (frame data, blobs) is a plain sub-slice of ONE buffer,
	// laid out back to back in call order - what a caller gets by slicing a file it has read. A slice's
	// spare capacity then covers the payloads that follow it; the buffer must come back unchanged.
	Arena bool
}

type bsEntry struct {
	Bitstream []byte
	Alph      []byte
	W, H      int
}

var (
	bsOnce sync.Once
	bsPool []bsEntry
)

func bitstreamPool() []bsEntry {
	bsOnce.Do(func() {
		add := func(im *gen.Img, mod func(o *gen.Opts)) {
			data := mustEncode(im, mod)
			rf, err := riffwalk.Parse(data)
			if err != nil {
				panic(err)
			}
			fr := rf.Frames[0]
			bsPool = append(bsPool, bsEntry{Bitstream: fr.Bitstream, Alph: fr.Alph, W: fr.BW, H: fr.BH})
		}
		ll := func(o *gen.Opts) { o.Lossless = true }
		for i, d := range [][2]int{{4, 4}, {8, 6}, {5, 9}, {16, 16}, {3, 2}, {10, 12}, {7, 7}} {
			add(mkImg(d[0], d[1], "photo", "opaque", uint64(i+1)), nil)
			add(mkImg(d[0], d[1], "pal16", "opaque", uint64(i+20)), ll)
			add(mkImg(d[0], d[1], "gradient", "gradient", uint64(i+40)), nil) // lossy + ALPH
			add(mkImg(d[0], d[1], "photo", "levels", uint64(i+60)), ll)        // VP8L with alpha bit
			add(mkImg(d[0], d[1], "photo", "binary", uint64(i+80)), func(o *gen.Opts) { o.AlphaCompression = 0 })
		}
	})
	return bsPool
}

func genC14(t *rapid.T) *c14Case {
	pool := bitstreamPool()
	c := &c14Case{Arena: rapid.Bool().Draw(t, "arena")}
	n := rapid.IntRange(1, 14).Draw(t, "nOps")
	frames := 0
	for i := 0; i < n; i++ {
		kind := rapid.SampledFrom([]string{"addframe", "addframe", "addframe", "setdispose", "setduration", "canvas", "loop", "bg", "icc", "exif", "xmp", "addchunk"}).Draw(t, "op")
		if i == 0 {
			kind = "addframe"
		}
		op := c14Op{Kind: kind}
		switch kind {
		case "addframe":
			e := pool[rapid.IntRange(0, len(pool)-1).Draw(t, "bs")]
			op.Bitstream, op.W, op.H = e.Bitstream, e.W, e.H
			if e.Alph != nil {
				op.Alph, op.HasAlph = e.Alph, true
			}
			op.NilOpts = rapid.IntRange(0, 5).Draw(t, "nilOpts") == 0
			if !op.NilOpts {
				op.Duration = rapid.SampledFrom([]int{0, 0, 1, 40, 100, 0xFFFFFF, 0x1000000, 1 << 30, -1, -100}).Draw(t, "dur")
				op.OffX = rapid.SampledFrom([]int{0, 0, 1, 2, 3, 7, 10, 33}).Draw(t, "offx")
				op.OffY = rapid.SampledFrom([]int{0, 0, 1, 2, 5, 8, 21}).Draw(t, "offy")
				op.BlendNone = rapid.Bool().Draw(t, "blendNone")
				op.DisposeBG = rapid.Bool().Draw(t, "disposeBG")
			}
			frames++
			if len(e.Bitstream) < 120 && rapid.IntRange(0, 119).Draw(t, "long") == 57 {
				op.Repeat = rapid.SampledFrom([]int{200, 900, 994, 995, 996, 997, 998, 999, 1000, 1001, 1002, 2500, 9997, 9998, 9999, 10000, 10001}).Draw(t, "repeat")
				frames += op.Repeat
			}
		case "setdispose":
			op.Index = rapid.IntRange(-1, frames).Draw(t, "idx")
			op.IVal = rapid.IntRange(0, 1).Draw(t, "mode")
		case "setduration":
			op.Index = rapid.IntRange(-1, frames).Draw(t, "idx")
			op.IVal = rapid.SampledFrom([]int{0, 1, 50, 0xFFFFFF, 0x1000000, -5}).Draw(t, "dur")
		case "canvas":
			op.IVal = rapid.SampledFrom([]int{0, 1, 16, 40, 64, 100, 16383, 1 << 24, 1<<24 + 5}).Draw(t, "cw")
			op.IVal2 = rapid.SampledFrom([]int{0, 1, 16, 40, 64, 100, 16383, 1 << 24}).Draw(t, "ch")
			// keep the canvas area below the package's documented 2^30-pixel safety cap: beyond it the
			// readers refuse the file by design (that cap is C05's subject, not the muxer's)
			if op.IVal > 16383 && op.IVal2 > 40 {
				op.IVal2 = 40
			}
			if op.IVal2 > 16383 && op.IVal > 40 {
				op.IVal = 40
			}
		case "loop":
			op.IVal = rapid.SampledFrom([]int{0, 1, 2, 65535, 65536, 1 << 20, -1}).Draw(t, "loop")
		case "bg":
			op.UVal = rapid.Uint32().Draw(t, "bg")
		case "icc", "exif", "xmp", "addchunk":
			op.Blob, op.BlobNil = gen.DrawBlob(t, "blob", 40)
			if kind == "addchunk" {
				op.ChunkID = rapid.SampledFrom([]string{"ICCP", "EXIF", "XMP "}).Draw(t, "cid")
			}
		}
		c.Ops = append(c.Ops, op)
	}
	return c
}

type c14Frame struct {
	op  c14Op
	dur int
	dispose bool
}

func clampDur(d int) int {
	if d < 0 {
		return 0
	}
	if d > 0xFFFFFF {
		return 0xFFFFFF
	}
	return d
}

func checkC14(c *c14Case, o *core.Obs) error {
	m := mux.NewMuxer()
	var arena, arenaCopy []byte
	inArena := func(b []byte) []byte { return b }
	if c.Arena {
		total := 0
		for i := range c.Ops {
			total += len(c.Ops[i].Bitstream) + len(c.Ops[i].Alph) + len(c.Ops[i].Blob) + 16
		}
		arena = make([]byte, 0, total)
		inArena = func(b []byte) []byte {
			if b == nil {
				return nil
			}
			at := len(arena)
			arena = append(arena, b...) // never reallocates: capacity was sized above
			return arena[at:len(arena)]
		}
		defer func() { arenaCopy = nil }()
	}
	// model state
	var frames []c14Frame
	var meta [3]struct {
		set  bool
		data []byte
	}
	loop, bg := 0, uint32(0)
	cw, ch := 0, 0
	used := map[string]bool{}
	blobOf := func(op *c14Op) []byte {
		if op.BlobNil && len(op.Blob) == 0 {
			return nil
		}
		if op.Blob == nil {
			return []byte{}
		}
		return op.Blob
	}
	for i := range c.Ops {
		op := &c.Ops[i]
		used[op.Kind] = true
		switch op.Kind {
		case "addframe":
			data := op.Bitstream
			if op.HasAlph {
				pre := []byte("ALPH\x00\x00\x00\x00")
				n := len(op.Alph)
				pre[4], pre[5], pre[6], pre[7] = byte(n), byte(n>>8), byte(n>>16), byte(n>>24)
				pre = append(pre, op.Alph...)
				if n&1 == 1 {
					pre = append(pre, 0)
				}
				data = append(pre, op.Bitstream...)
			}
			data = inArena(data)
			var fo *mux.FrameOptions
			if !op.NilOpts {
				fo = &mux.FrameOptions{Duration: op.Duration, OffsetX: op.OffX, OffsetY: op.OffY}
				if op.BlendNone {
					fo.BlendMode = mux.BlendNone
				}
				if op.DisposeBG {
					fo.DisposeMode = mux.DisposeBackground
				}
			}
			for rep := 0; rep <= op.Repeat; rep++ {
				if err := m.AddFrame(data, fo); err != nil {
					if len(frames) >= container.MaxFrames {
						// the documented frame limit: rejected with an error, the frame is not part of the state
						o.Label("frame-limit-reached")
						continue
					}
					return fmt.Errorf("AddFrame rejected a real bitstream (frame %d): %v", len(frames), err)
				}
				if len(frames) >= container.MaxFrames {
					return fmt.Errorf("AddFrame accepted frame number %d, beyond the package's MaxFrames", len(frames)+1)
				}
				f := c14Frame{op: *op, dur: clampDur(op.Duration), dispose: op.DisposeBG}
				if op.NilOpts {
					f.dur, f.dispose = 0, false
					f.op.OffX, f.op.OffY, f.op.BlendNone = 0, 0, false
				}
				frames = append(frames, f)
			}
		case "setdispose":
			m.SetFrameDisposeMode(op.Index, mux.DisposeMode(op.IVal))
			if op.Index >= 0 && op.Index < len(frames) {
				frames[op.Index].dispose = op.IVal == 1
			}
		case "setduration":
			m.SetFrameDuration(op.Index, op.IVal)
			if op.Index >= 0 && op.Index < len(frames) {
				frames[op.Index].dur = clampDur(op.IVal)
			}
			if n := m.FrameDuration(op.Index); op.Index >= 0 && op.Index < len(frames) && n != frames[op.Index].dur {
				return fmt.Errorf("FrameDuration(%d)=%d after SetFrameDuration(%d), want %d", op.Index, n, op.IVal, frames[op.Index].dur)
			}
		case "canvas":
			m.SetCanvasSize(op.IVal, op.IVal2)
			cw, ch = op.IVal, op.IVal2
			if cw > 1<<24 {
				cw = 1 << 24
			}
			if ch > 1<<24 {
				ch = 1 << 24
			}
		case "loop":
			m.SetLoopCount(op.IVal)
			loop = clampLoop(op.IVal)
		case "bg":
			m.SetBackgroundColor(op.UVal)
			bg = op.UVal
		case "icc":
			m.SetICCProfile(inArena(blobOf(op)))
			meta[0].set, meta[0].data = blobOf(op) != nil, blobOf(op)
		case "exif":
			m.SetEXIF(inArena(blobOf(op)))
			meta[1].set, meta[1].data = blobOf(op) != nil, blobOf(op)
		case "xmp":
			m.SetXMP(inArena(blobOf(op)))
			meta[2].set, meta[2].data = blobOf(op) != nil, blobOf(op)
		case "addchunk":
			id := map[string]mux.ChunkID{"ICCP": mux.FourCCICCP, "EXIF": mux.FourCCEXIF, "XMP ": mux.FourCCXMP}[op.ChunkID]
			if err := m.AddChunk(id, inArena(blobOf(op))); err != nil {
				return fmt.Errorf("AddChunk(%s): %v", op.ChunkID, err)
			}
			k := map[string]int{"ICCP": 0, "EXIF": 1, "XMP ": 2}[op.ChunkID]
			meta[k].set, meta[k].data = blobOf(op) != nil, blobOf(op)
		}
	}
	if m.NumFrames() != len(frames) {
		return fmt.Errorf("NumFrames %d, model %d", m.NumFrames(), len(frames))
	}
	animated := len(frames) > 1
	for _, f := range frames {
		if f.dur > 0 {
			animated = true
		}
	}
	// expected canvas
	ecw, ech := cw, ch
	if !(cw > 0 && ch > 0) {
		ecw, ech = 0, 0
		for _, f := range frames {
			if f.op.OffX+f.op.W > ecw {
				ecw = f.op.OffX + f.op.W
			}
			if f.op.OffY+f.op.H > ech {
				ech = f.op.OffY + f.op.H
			}
		}
	}
	fits := true
	for _, f := range frames {
		if f.op.OffX+f.op.W > ecw || f.op.OffY+f.op.H > ech {
			fits = false
		}
	}
	anyMeta := meta[0].set || meta[1].set || meta[2].set
	anyAlph := false
	for _, f := range frames {
		if f.op.HasAlph {
			anyAlph = true
		}
	}
	arenaCopy = append([]byte(nil), arena...)
	var buf bytes.Buffer
	err := m.Assemble(&buf)
	if c.Arena {
		o.Label("arena=yes")
		if !bytes.Equal(arena, arenaCopy) {
			return fmt.Errorf("Assemble modified the caller's input buffer (first change at byte %d of %d)", firstDiff(arena, arenaCopy), len(arena))
		}
	}
	if err == nil && buf.Len() <= 1<<16 {
		// injected fault: Assemble on the same state with a writer that fails after k bytes must
		// report the failure (and, by the rule below, must not have delivered a complete file)
		for _, k := range faultBudgets(buf.Len(), (buf.Len()*7919)%1000) {
			fw := &faultWriter{budget: k}
			if e2 := m.Assemble(fw); e2 == nil && fw.failed {
				return fmt.Errorf("Assemble returned nil although the writer failed after %d of %d bytes", k, buf.Len())
			}
		}
	}
	o.Labelf("animated=%v frames=%d", animated, bucket(len(frames)))
	o.Labelf("assemble_ok=%v", err == nil)
	nsig := len(frames)
	if nsig > 20 {
		cls := "21-998"
		switch {
		case len(frames) >= 10000:
			cls, nsig = "10000", 10000
		case len(frames) >= 999:
			cls, nsig = "999-9999", 999
		default:
			nsig = 21
		}
		o.Label("long-animation frames " + cls)
	}
	sig := fmt.Sprintf("a%v n%d meta%v alph%v|", animated, nsig, anyMeta, anyAlph)
	for k := range used {
		_ = k
	}
	for _, k := range []string{"setdispose", "setduration", "canvas", "loop", "bg", "icc", "exif", "xmp", "addchunk"} {
		if used[k] {
			sig += k[:2] + ","
		}
	}
	par := ""
	for i, f := range frames {
		if i >= 16 {
			break
		}
		par += fmt.Sprintf("%d%d", len(f.op.Bitstream)&1, len(f.op.Alph)&1)
	}
	o.SampleJSON = map[string]any{"ops": len(c.Ops), "frames": len(frames), "animated": animated, "canvas": [2]int{cw, ch}, "fits": fits, "err": fmt.Sprint(err)}
	if anyAlph || len(frames) >= 2 || anyMeta {
		o.NonTrivial("%s|%s|fit%v", sig, par, fits)
	}
	if err != nil {
		if buf.Len() != 0 {
			if _, e2 := webp.Decode(bytes.NewReader(buf.Bytes())); e2 == nil {
				return fmt.Errorf("Assemble returned %v but had already written a decodable file", err)
			}
			if _, e2 := riffwalk.Parse(buf.Bytes()); e2 == nil {
				return fmt.Errorf("Assemble returned %v but wrote %d bytes that form a complete file", err, buf.Len())
			}
		}
		if fits && ecw <= 1<<24 && ech <= 1<<24 {
			return fmt.Errorf("Assemble rejected a consistent state (canvas %dx%d, %d frames all inside): %v", ecw, ech, len(frames), err)
		}
		return nil
	}
	if !fits {
		return fmt.Errorf("Assemble accepted a frame outside the canvas %dx%d", ecw, ech)
	}
	data := buf.Bytes()
	still := !animated
	if still && (ecw != frames[0].op.W || ech != frames[0].op.H) {
		// a still whose canvas differs from the picture is outside what the container can express
		// consistently (C16's domain statement); only structural reading below, no riffwalk strictness
		o.Label("still-with-larger-canvas")
	}
	rf, rerr := riffwalk.Parse(data)
	if rerr != nil && !(still && (ecw != frames[0].op.W || ech != frames[0].op.H)) {
		return fmt.Errorf("assembled file is not a structurally valid container: %v", rerr)
	}
	// Demuxer view
	dmx, err := mux.NewDemuxer(data)
	if err != nil {
		return fmt.Errorf("demuxer rejects the assembled file: %v", err)
	}
	if dmx.NumFrames() != len(frames) {
		return fmt.Errorf("demuxer sees %d frames, %d were added", dmx.NumFrames(), len(frames))
	}
	p, err := container.NewParser(data)
	if err != nil {
		return fmt.Errorf("container parser rejects the assembled file: %v", err)
	}
	if len(p.Frames()) != len(frames) {
		return fmt.Errorf("container parser sees %d frames, %d were added", len(p.Frames()), len(frames))
	}
	feat := dmx.GetFeatures()
	extended := animated || anyMeta || anyAlph
	if extended {
		if feat.Width != ecw || feat.Height != ech {
			return fmt.Errorf("demuxer canvas %dx%d, expected %dx%d", feat.Width, feat.Height, ecw, ech)
		}
		if pf := p.Features(); pf.CanvasWidth != ecw || pf.CanvasHeight != ech {
			return fmt.Errorf("container parser canvas %dx%d, expected %dx%d", pf.CanvasWidth, pf.CanvasHeight, ecw, ech)
		}
	}
	if feat.HasAnimation != animated || p.Features().HasAnim != animated {
		return fmt.Errorf("animation flag: demuxer %v parser %v, expected %v", feat.HasAnimation, p.Features().HasAnim, animated)
	}
	for i, f := range frames {
		fi, err := dmx.Frame(i)
		if err != nil {
			return fmt.Errorf("Frame(%d): %v", i, err)
		}
		pf := p.Frames()[i]
		gotData, gotAlpha := fi.Data, fi.AlphaData
		if !bytes.Equal(gotData, f.op.Bitstream) || !bytes.Equal(pf.Payload, f.op.Bitstream) {
			return fmt.Errorf("frame %d bitstream differs (demuxer %d bytes, parser %d bytes, added %d bytes)", i, len(gotData), len(pf.Payload), len(f.op.Bitstream))
		}
		if f.op.HasAlph {
			if !bytes.Equal(gotAlpha, f.op.Alph) || !bytes.Equal(pf.AlphaData, f.op.Alph) {
				return fmt.Errorf("frame %d alpha payload differs (demuxer %d, parser %d, added %d bytes)", i, len(gotAlpha), len(pf.AlphaData), len(f.op.Alph))
			}
		} else if len(gotAlpha) != 0 || len(pf.AlphaData) != 0 {
			return fmt.Errorf("frame %d: alpha payload appeared from nowhere", i)
		}
		if animated {
			ex, ey := f.op.OffX&^1, f.op.OffY&^1
			if fi.OffsetX != ex || fi.OffsetY != ey || pf.XOffset != ex || pf.YOffset != ey {
				return fmt.Errorf("frame %d offset: demuxer (%d,%d) parser (%d,%d), expected (%d,%d)", i, fi.OffsetX, fi.OffsetY, pf.XOffset, pf.YOffset, ex, ey)
			}
			if fi.Duration != f.dur || pf.Duration != f.dur {
				return fmt.Errorf("frame %d duration: demuxer %d parser %d, expected %d", i, fi.Duration, pf.Duration, f.dur)
			}
			wantBlend, wantDisp := mux.BlendAlpha, mux.DisposeNone
			if f.op.BlendNone {
				wantBlend = mux.BlendNone
			}
			if f.dispose {
				wantDisp = mux.DisposeBackground
			}
			if fi.BlendMode != wantBlend || fi.DisposeMode != wantDisp || (pf.BlendMethod == container.BlendNone) != f.op.BlendNone || (pf.DisposeMethod == container.DisposeBackground) != f.dispose {
				return fmt.Errorf("frame %d blend/dispose flags differ", i)
			}
			if fi.Width != f.op.W || fi.Height != f.op.H || pf.Width != f.op.W || pf.Height != f.op.H {
				return fmt.Errorf("frame %d size: demuxer %dx%d parser %dx%d, bitstream %dx%d", i, fi.Width, fi.Height, pf.Width, pf.Height, f.op.W, f.op.H)
			}
		}
	}
	// the streaming view of the same demuxer: the iterator yields exactly Frame(0..n-1), then reports the end
	it := dmx.NewFrameIterator()
	for i := range frames {
		if !it.HasNext() {
			return fmt.Errorf("frame iterator ends after %d of %d frames", i, len(frames))
		}
		a, errA := it.Next()
		b, errB := dmx.Frame(i)
		if errA != nil || errB != nil || !reflect.DeepEqual(a, b) {
			return fmt.Errorf("frame iterator item %d (%v) differs from Frame(%d) (%v)", i, errA, i, errB)
		}
	}
	if it.HasNext() {
		return fmt.Errorf("frame iterator yields more than the %d frames added", len(frames))
	}
	if _, err := it.Next(); err == nil {
		return fmt.Errorf("frame iterator: Next past the end succeeds")
	}
	if _, err := dmx.Frame(len(frames)); err == nil {
		return fmt.Errorf("Demuxer.Frame(%d) of %d succeeds", len(frames), len(frames))
	}
	if _, err := dmx.Frame(-1); err == nil {
		return fmt.Errorf("Demuxer.Frame(-1) succeeds")
	}
	if animated {
		if dmx.LoopCount() != loop || p.Features().LoopCount != loop {
			return fmt.Errorf("loop count: demuxer %d parser %d, expected %d", dmx.LoopCount(), p.Features().LoopCount, loop)
		}
		if dmx.BackgroundColor() != bg || p.Features().BGColor != bg {
			return fmt.Errorf("background colour: demuxer %#x parser %#x, expected %#x", dmx.BackgroundColor(), p.Features().BGColor, bg)
		}
	}
	for k, id := range []mux.ChunkID{mux.FourCCICCP, mux.FourCCEXIF, mux.FourCCXMP} {
		got, gerr := dmx.GetChunk(id)
		switch {
		case meta[k].set && len(meta[k].data) > 0:
			if gerr != nil || !bytes.Equal(got, meta[k].data) {
				return fmt.Errorf("metadata %d not returned byte-exact: err=%v len=%d want %d", k, gerr, len(got), len(meta[k].data))
			}
		case !meta[k].set:
			if gerr == nil && len(got) > 0 {
				return fmt.Errorf("metadata %d appeared from nowhere (%d bytes)", k, len(got))
			}
		}
	}
	// public header queries
	gf, err := webp.GetFeatures(bytes.NewReader(data))
	if err != nil {
		return fmt.Errorf("GetFeatures rejects the assembled file: %v", err)
	}
	if gf.FrameCount != len(frames) || gf.HasAnimation != animated {
		return fmt.Errorf("GetFeatures: %+v, expected %d frames animated=%v", *gf, len(frames), animated)
	}
	if rf != nil && (rf.CanvasW != ecw || rf.CanvasH != ech) && extended {
		return fmt.Errorf("independent reader sees canvas %dx%d, expected %dx%d", rf.CanvasW, rf.CanvasH, ecw, ech)
	}
	// stills decode to the same pixels as the bitstream on its own
	if still && ecw == frames[0].op.W && ech == frames[0].op.H {
		f := frames[0]
		var ref []byte
		if f.op.HasAlph {
			ref = xref.MinimalVP8X(f.op.Alph, f.op.Bitstream, f.op.W, f.op.H)
		} else if f.op.Bitstream[0] == 0x2f {
			ref = xref.Simple("VP8L", f.op.Bitstream)
		} else {
			ref = xref.Simple("VP8 ", f.op.Bitstream)
		}
		a, e1 := decodeBytes(data)
		b, e2 := decodeBytes(ref)
		if e1 != nil || e2 != nil {
			return fmt.Errorf("still decode: assembled err=%v reference err=%v", e1, e2)
		}
		va, vb := viewOf(a, nil), viewOf(b, nil)
		if va.Type != vb.Type || !bytes.Equal(va.Pix, vb.Pix) {
			return fmt.Errorf("assembled still decodes differently from its bitstream")
		}
	}
	return nil
}

func TestC14(t *testing.T) { core.Run(t, "C14", genC14, checkC14) }
