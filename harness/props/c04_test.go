package props

import (
	"fmt"
	"testing"

	"github.com/deepteams/webp/verifharness/core"
	"github.com/deepteams/webp/verifharness/gen"
	"github.com/deepteams/webp/verifharness/ref/cref"
	"github.com/deepteams/webp/verifharness/ref/riffwalk"
	"github.com/deepteams/webp/verifharness/ref/xref"
	"pgregory.net/rapid"
)

// C04: VP8 (lossy) and ALPH decoding returns the samples the format defines.

type c04Case struct {
	Source string // gen | gen+alph | gen+alphl | libwebp
	Prog   *gen.VP8Prog
	// ALPH for gen+alph: header byte + raw plane
	AlphFilter int
	AlphPre    int
	AlphSeed   uint64
	AlphClass  string
	AlphProg   *gen.VP8LProg // gen+alphl: VP8L-compressed alpha plane (alpha = green channel)
	// libwebp source
	Img     *gen.Img
	Quality int
}

func genC04(t *rapid.T) *c04Case {
	c := &c04Case{Source: rapid.SampledFrom([]string{"gen", "gen", "gen", "gen+alph", "gen+alphl", "libwebp"}).Draw(t, "source")}
	max := 56
	if tierThorough() {
		max = 120
	}
	switch c.Source {
	case "gen", "gen+alph", "gen+alphl":
		c.Prog = gen.DrawVP8(t, max)
		if c.Source == "gen+alphl" {
			c.AlphFilter = rapid.IntRange(0, 3).Draw(t, "alphFilter")
			c.AlphPre = rapid.IntRange(0, 1).Draw(t, "alphPre")
			c.AlphProg = gen.DrawVP8L(t, 8)
			c.AlphProg.W, c.AlphProg.H = c.Prog.W, c.Prog.H
		}
		if c.Source == "gen+alph" {
			c.AlphFilter = rapid.IntRange(0, 3).Draw(t, "alphFilter")
			c.AlphPre = rapid.IntRange(0, 1).Draw(t, "alphPre")
			c.AlphSeed = rapid.Uint64().Draw(t, "alphSeed")
			c.AlphClass = rapid.SampledFrom([]string{"noise", "gradient", "binary", "levels"}).Draw(t, "alphClass")
		}
	default:
		c.Img = gen.DrawImg(t, gen.ImgCfg{MaxSide: max, BigChance: 5, BigSide: 300, LargePermille: 8, ThinPermille: 8, Kinds: []string{"nrgba"}, Places: []string{"tight"}})
		c.Quality = rapid.IntRange(0, 100).Draw(t, "q")
	}
	return c
}

func checkC04(c *c04Case, o *core.Obs) error {
	var parts *stillParts
	sig := ""
	switch c.Source {
	case "gen", "gen+alph", "gen+alphl":
		bs := c.Prog.Build()
		p := &stillParts{Bitstream: bs, W: c.Prog.W, H: c.Prog.H, RawToWitness: true}
		if c.Source == "gen+alphl" {
			ls, _ := c.AlphProg.Build()
			alph := append([]byte{byte(1 | c.AlphFilter<<2 | c.AlphPre<<4)}, ls[5:]...) // headerless VP8L stream
			p.Alph, p.HasAlph = alph, true
			p.File = xref.MinimalVP8X(alph, bs, c.Prog.W, c.Prog.H)
		}
		if c.Source == "gen+alph" {
			plane := gen.RenderContent(c.Prog.W, c.Prog.H, "flat", c.AlphClass, c.AlphSeed)
			alph := make([]byte, 1+c.Prog.W*c.Prog.H)
			alph[0] = byte(0 | c.AlphFilter<<2 | c.AlphPre<<4)
			for i := 0; i < c.Prog.W*c.Prog.H; i++ {
				alph[1+i] = plane[i*4+3] // stored residuals: any bytes are a valid filtered plane
			}
			p.Alph, p.HasAlph = alph, true
			p.File = xref.MinimalVP8X(alph, bs, c.Prog.W, c.Prog.H)
		} else if c.Source == "gen" {
			p.File = xref.Simple("VP8 ", bs)
		}
		parts = p
		pr := c.Prog
		lvl := "mid"
		if pr.FilterLevel == 0 {
			lvl = "0"
		} else if pr.FilterLevel == 63 {
			lvl = "63"
		}
		sig = fmt.Sprintf("%s|seg%v map%v abs%v|simple%v lvl%s sh%v d%v|p%d|skip%v|z%d|af%d", c.Source, pr.SegEnabled, pr.SegUpdateMap, pr.SegAbs, pr.FilterSimple, lvl, pr.Sharpness > 0, pr.LFDelta && pr.LFDeltaUpdate, 1<<pr.Log2Parts, pr.UseSkip, pr.TokZeroRun, c.AlphFilter)
		o.SampleJSON = map[string]any{"source": c.Source, "prog": pr.Summary(), "alph_filter": c.AlphFilter}
		o.Labelf("segments=%v", pr.SegEnabled)
		o.Labelf("filter_simple=%v level=%s", pr.FilterSimple, lvl)
		o.Labelf("partitions=%d", 1<<pr.Log2Parts)
	default:
		if !cref.Available() {
			o.Inconclusive("libwebp unavailable for libwebp-encoded source")
			return nil
		}
		file := cref.EncodeRGBA(c.Img.Pix, c.Img.W, c.Img.H, float32(c.Quality))
		if file == nil {
			o.Inconclusive("libwebp encoder failed")
			return nil
		}
		rf, err := riffwalk.Parse(file)
		if err != nil {
			o.Inconclusive("riffwalk rejects libwebp's file: %v", err)
			return nil
		}
		fr := rf.Frames[0]
		parts = &stillParts{File: file, Bitstream: fr.Bitstream, Alph: fr.Alph, HasAlph: fr.HasAlph, W: c.Img.W, H: c.Img.H}
		hdr := byte(0)
		if fr.HasAlph && len(fr.Alph) > 0 {
			hdr = fr.Alph[0]
		}
		sig = fmt.Sprintf("libwebp|q%d|alph%v m%d f%d|seg%v|%s", c.Quality/10, fr.HasAlph, hdr&3, (hdr>>2)&3, fr.VP8.SegEnabled, c.Img.SizeClass())
		o.SampleJSON = map[string]any{"source": "libwebp", "img": c.Img.Summary(), "q": c.Quality, "alph": fr.HasAlph, "alph_hdr": hdr}
		o.Labelf("libwebp_alph=%v method=%d filter=%d", fr.HasAlph, hdr&3, (hdr>>2)&3)
	}
	o.Label("source=" + c.Source)
	d := diffStill(parts)
	if !d.Truth {
		if d.WitnessAccept == 0 {
			o.Inconclusive("all witnesses reject the generated stream (generator): %s", d.WitnessNote)
		} else {
			o.Inconclusive("witnesses disagree: %s", d.WitnessNote)
		}
		return nil
	}
	o.NonTrivial("%s", sig)
	if d.RepoErr != nil {
		return fmt.Errorf("package rejects a stream that %d independent decoders accept and agree on: %v", d.WitnessAccept, d.RepoErr)
	}
	if d.Mismatch != "" {
		return fmt.Errorf("%s: %s", c.Source, d.Mismatch)
	}
	return nil
}

func TestC04(t *testing.T) { core.Run(t, "C04", genC04, checkC04) }
