package props

import (
	"image/color"
	"fmt"
	"image"
	"testing"
	"time"

	"github.com/deepteams/webp/animation"
	"github.com/deepteams/webp/verifharness/core"
	"github.com/deepteams/webp/verifharness/gen"
	"github.com/deepteams/webp/verifharness/ref/riffwalk"
	"pgregory.net/rapid"
)

// C08: lossless animations play back as exactly the pictures that were added.

type c08Case struct {
	Seq     *gen.AnimSeq
	Quality int
}

func genC08(t *rapid.T) *c08Case {
	maxC, maxF := 24, 8
	if tierThorough() {
		maxC, maxF = 64, 14
	}
	return &c08Case{
		Seq:     gen.DrawAnimSeq(t, maxC, maxF, 0, []string{"opaque", "binary", "semi-flat", "semi-flat", "semi-strip", "semi-strip", "levels", "gradient", "noise", "transparent"}),
		Quality: rapid.SampledFrom([]int{0, 50, 75, 100}).Draw(t, "quality"),
	}
}

// expectedCanvases returns the canvas each input picture produces (picture at (0,0) on transparent).
func expectedCanvases(s *gen.AnimSeq) []*image.NRGBA {
	var out []*image.NRGBA
	for _, f := range s.Frames {
		c := image.NewNRGBA(image.Rect(0, 0, s.CW, s.CH))
		for y := 0; y < f.H; y++ {
			copy(c.Pix[y*c.Stride:y*c.Stride+f.W*4], f.Pix[y*f.W*4:(y+1)*f.W*4])
		}
		out = append(out, c)
	}
	return out
}

func seqImages(s *gen.AnimSeq) ([]image.Image, []int) {
	var imgs []image.Image
	var durs []int
	for i, f := range s.Frames {
		imgs = append(imgs, s.Frames[i].Image())
		durs = append(durs, f.DurMS)
	}
	return imgs, durs
}

type timelineEntry struct {
	Canvas *image.NRGBA
	Dur    time.Duration
}

func mergeTimeline(cs []*image.NRGBA, ds []time.Duration) []timelineEntry {
	var out []timelineEntry
	for i, c := range cs {
		if n := len(out); n > 0 && canvasDiff(out[n-1].Canvas, c) == -1 {
			out[n-1].Dur += ds[i]
			continue
		}
		out = append(out, timelineEntry{c, ds[i]})
	}
	return out
}

func clampLoop(v int) int {
	if v < 0 {
		return 0
	}
	if v > 65535 {
		return 65535
	}
	return v
}

func checkC08(c *c08Case, o *core.Obs) error {
	s := c.Seq
	imgs, durs := seqImages(s)
	eo := &animation.EncodeOptions{Lossless: true, Quality: c.Quality, Kmin: s.Kmin, Kmax: s.Kmax, LoopCount: s.Loop, BackgroundColor: color.NRGBA{R: s.BG[0], G: s.BG[1], B: s.BG[2], A: s.BG[3]}}
	data, err := animEncode(s.CW, s.CH, imgs, durs, eo, nil, nil, nil, false)
	if err != nil {
		return fmt.Errorf("animation encoder failed: %v", err)
	}
	rf, err := riffwalk.Parse(data)
	if err != nil {
		return fmt.Errorf("emitted file is not a well-formed container: %v", err)
	}
	pb, err := playback(data)
	if err != nil {
		return fmt.Errorf("playback: %v", err)
	}
	if pb.W != s.CW || pb.H != s.CH {
		return fmt.Errorf("canvas %dx%d, want %dx%d", pb.W, pb.H, s.CW, s.CH)
	}
	exp := expectedCanvases(s)
	var expD []time.Duration
	for _, d := range durs {
		expD = append(expD, time.Duration(d)*time.Millisecond)
	}
	E := mergeTimeline(exp, expD)
	A := mergeTimeline(pb.Canvases, pb.Durations)
	// evidence
	sub, merged, filler := false, len(E) < len(exp), false
	modes := map[string]bool{}
	for i, fr := range rf.Frames {
		if fr.X != 0 || fr.Y != 0 || fr.W != s.CW || fr.H != s.CH {
			sub = true
		}
		if i > 0 && fr.W == 1 && fr.H == 1 && rf.Frames[i-1].Duration == 0xFFFFFF {
			filler = true
		}
		modes[fmt.Sprintf("b%v d%v", !fr.BlendNone, fr.DisposeBG)] = true
	}
	o.Labelf("alpha=%s", s.Alpha)
	o.Labelf("out_frames=%d", bucket(len(rf.Frames)))
	o.Labelf("subframes=%v merged=%v filler=%v", sub, merged, filler)
	for m := range modes {
		o.Label("mode " + m)
	}
	o.SampleJSON = map[string]any{"seq": s.Summary(), "file_frames": len(rf.Frames), "animated": rf.Animated}
	if len(E) >= 2 && (sub || merged || s.Kmax > 0) {
		o.NonTrivial("%s|%v|k%d-%d|%v|sub%v mrg%v fil%v", s.Alpha, editKinds(s), s.Kmin, s.Kmax, modes, sub, merged, filler)
	}
	if len(A) != len(E) {
		return fmt.Errorf("played back %d distinct consecutive pictures, %d were added (file has %d frames)", len(A), len(E), len(rf.Frames))
	}
	for i := range E {
		if at := canvasDiff(E[i].Canvas, A[i].Canvas); at != -1 {
			x, y := at%s.CW, at/s.CW
			return fmt.Errorf("picture %d differs at (%d,%d): added %v, played back %v", i, x, y, E[i].Canvas.NRGBAAt(x, y), A[i].Canvas.NRGBAAt(x, y))
		}
	}
	if len(E) >= 2 {
		var te, ta time.Duration
		for i := range E {
			if E[i].Dur != A[i].Dur {
				return fmt.Errorf("picture %d shown for %v, added with %v", i, A[i].Dur, E[i].Dur)
			}
			te += E[i].Dur
			ta += A[i].Dur
		}
		if te != ta {
			return fmt.Errorf("total duration %v, want %v", ta, te)
		}
		if pb.Loop != clampLoop(s.Loop) {
			return fmt.Errorf("loop count %d, want %d", pb.Loop, clampLoop(s.Loop))
		}
	}
	return nil
}

func editKinds(s *gen.AnimSeq) string {
	seen := map[string]bool{}
	out := ""
	for _, f := range s.Frames {
		if !seen[f.Edit] {
			seen[f.Edit] = true
			out += f.Edit[:2]
		}
	}
	return out
}

func TestC08(t *testing.T) { core.Run(t, "C08", genC08, checkC08) }
