package props

import (
	"errors"
	"io"
	"testing/iotest"
	"bytes"
	"fmt"
	"image"
	"reflect"
	"testing"

	"github.com/deepteams/webp"
	"github.com/deepteams/webp/verifharness/core"
	"github.com/deepteams/webp/verifharness/gen"
	"github.com/deepteams/webp/verifharness/ref/cref"
	"github.com/deepteams/webp/verifharness/ref/riffwalk"
	"github.com/deepteams/webp/verifharness/ref/xref"
	"pgregory.net/rapid"
)

// C17: decoding a truncated file is all-or-nothing.

type c17Case struct {
	Kind string // encode | libwebp | vp8gen | trailing
	File []byte
	Desc map[string]any
}

func genC17(t *rapid.T) *c17Case {
	c := &c17Case{Kind: rapid.SampledFrom([]string{"encode", "encode", "encode", "libwebp", "vp8gen", "trailing", "reorder", "bigdims"}).Draw(t, "kind")}
	max := 20
	if tierThorough() {
		max = 48
	}
	switch c.Kind {
	case "encode", "trailing", "reorder", "bigdims":
		im := gen.DrawImg(t, gen.ImgCfg{MaxSide: max, Kinds: []string{"nrgba"}, Places: []string{"tight"}})
		if c.Kind == "bigdims" {
			// dimensions whose header fields use their upper bits (>= 256, up to the format's 16383): a cut inside the
			// 14-bit / 24-bit size fields must not yield a smaller picture. Compressible content keeps the file short.
			long := rapid.SampledFrom([]int{256, 257, 300, 511, 512, 700, 1023, 1024, 1025, 2049, 4095, 4100, 8193, 16383}).Draw(t, "long")
			short := rapid.IntRange(1, 40).Draw(t, "short")
			if long <= 700 && rapid.IntRange(0, 3).Draw(t, "bothBig") == 0 {
				short = rapid.IntRange(256, 420).Draw(t, "short2")
			}
			w, h := long, short
			if rapid.Bool().Draw(t, "tall") {
				w, h = short, long
			}
			content := rapid.SampledFrom([]string{"flat", "pal2", "gradient", "bands", "letterbox", "sparse"}).Draw(t, "bigContent")
			alpha := rapid.SampledFrom([]string{"opaque", "opaque", "binary", "semi-flat", "late"}).Draw(t, "bigAlpha")
			im = &gen.Img{W: w, H: h, Kind: "nrgba", Place: "tight", Content: content, Alpha: alpha}
			im.Pix = gen.RenderContent(w, h, content, alpha, rapid.Uint64().Draw(t, "bigSeed"))
		}
		var o *gen.Opts
		if rapid.IntRange(0, 2).Draw(t, "lossless") == 0 {
			o = gen.DrawLosslessOpts(t)
		} else {
			o = gen.DrawLossyOpts(t, false)
			o.Pass = -1
		}
		if c.Kind == "bigdims" && o.Method > 3 {
			o.Method = 3
		}
		if rapid.Bool().Draw(t, "meta") {
			o.DrawMeta(t, 24)
		}
		b, err := encodeImg(im.Build(), o)
		if err != nil {
			t.Fatalf("encode: %v", err)
		}
		c.File = b
		c.Desc = map[string]any{"img": im.Summary(), "opts": o.Summary()}
		if c.Kind == "reorder" {
			// the container format lets metadata and unknown chunks appear anywhere after VP8X; other
			// writers put EXIF/XMP in front of the image data. Same chunks, metadata (plus an unknown chunk) first.
			o.DrawMeta(t, 24)
			if b2, err := encodeImg(im.Build(), o); err == nil {
				b = b2
				c.File = b
			}
			if rf, err := riffwalk.Parse(b); err == nil && rf.HasVP8X {
				var head, meta, rest [][]byte
				for _, ch := range rf.Chunks {
					raw := riffChunk(ch.ID, ch.Data, true)
					switch ch.ID {
					case "VP8X", "ICCP":
						head = append(head, raw)
					case "EXIF", "XMP ":
						meta = append(meta, raw)
					default:
						rest = append(rest, raw)
					}
				}
				if rapid.Bool().Draw(t, "unknownFirst") {
					meta = append(meta, riffChunk("JUNK", []byte("unknown chunk payload"), true))
				}
				all := append(append(head, meta...), rest...)
				if f := riffFile(all...); len(meta) > 0 {
					if _, err := webp.Decode(bytes.NewReader(f)); err == nil {
						c.File = f
						c.Desc = map[string]any{"img": im.Summary(), "opts": o.Summary(), "layout": "metadata before image data"}
					}
				}
			}
		}
		if c.Kind == "trailing" {
			// a valid file followed by an unknown chunk inside the RIFF payload (extended files only)
			if rf, err := riffwalk.Parse(b); err == nil && rf.HasVP8X {
				extra := []byte("JUNK\x05\x00\x00\x00hello\x00")
				c.File = append(append([]byte(nil), b...), extra...)
				sz := uint32(len(c.File) - 8)
				c.File[4], c.File[5], c.File[6], c.File[7] = byte(sz), byte(sz>>8), byte(sz>>16), byte(sz>>24)
			}
		}
	case "libwebp":
		im := gen.DrawImg(t, gen.ImgCfg{MaxSide: max, Kinds: []string{"nrgba"}, Places: []string{"tight"}})
		if rapid.Bool().Draw(t, "ll") {
			c.File = cref.EncodeLosslessRGBA(im.Pix, im.W, im.H)
		} else {
			c.File = cref.EncodeRGBA(im.Pix, im.W, im.H, float32(rapid.IntRange(0, 100).Draw(t, "q")))
		}
		c.Desc = map[string]any{"img": im.Summary()}
		if c.File == nil { // libwebp unavailable: fall back to a seed
			c.File = seeds()[0].Data
		}
	default:
		p := gen.DrawVP8(t, 24)
		if p.W > 48 || p.H > 48 {
			// every prefix of the file is decoded: the generator's rare very wide/tall frames (hundreds of
			// kilobytes) stay out of this check
			p.W, p.H = minInt(p.W, 48), minInt(p.H, 48)
		}
		c.File = xref.Simple("VP8 ", p.Build())
		c.Desc = map[string]any{"prog": p.Summary()}
	}
	return c
}

type decodeView struct {
	Err    bool
	Type   string
	Bounds image.Rectangle
	Pix    []byte
}

func viewOf(img image.Image, err error) decodeView {
	if err != nil {
		return decodeView{Err: true}
	}
	v := decodeView{Type: fmt.Sprintf("%T", img), Bounds: img.Bounds()}
	switch m := img.(type) {
	case *image.NRGBA:
		v.Pix = tightNRGBA(m)
	case *image.YCbCr:
		y, u, vv := tightYCbCr(m)
		v.Pix = append(append(y, u...), vv...)
	default:
		for _, p := range toNRGBA(img) {
			v.Pix = append(v.Pix, p.R, p.G, p.B, p.A)
		}
	}
	return v
}

func checkC17(c *c17Case, o *core.Obs) error {
	full := c.File
	fImg, fErr := webp.Decode(bytes.NewReader(full))
	if fErr != nil {
		// not in the property's domain (vp8gen frames the package rejects are C04's business)
		o.Inconclusive("full file is not accepted by Decode: %v", fErr)
		return nil
	}
	fView := viewOf(fImg, nil)
	fCfg, fCfgErr := webp.DecodeConfig(bytes.NewReader(full))
	fFeat, fFeatErr := webp.GetFeatures(bytes.NewReader(full))
	if fCfgErr != nil || fFeatErr != nil {
		return fmt.Errorf("full file decodes but DecodeConfig err=%v GetFeatures err=%v", fCfgErr, fFeatErr)
	}
	rf, _ := riffwalk.Parse(full)
	layout := "?"
	if rf != nil {
		layout = fmt.Sprint(rf.Order)
		if rf.Frames[0].VP8 != nil {
			layout += fmt.Sprintf("p%d", rf.Frames[0].VP8.NumPartitions)
		}
	}
	okPrefixes, errPrefixes := 0, 0
	// Every prefix is enumerated. Only when (file length x picture size) is large - the big-dimension class - the
	// prefixes are thinned out to: the first 160 bytes (all header fields), 3 bytes either side of every chunk
	// boundary, the last 40 bytes and 96 evenly spaced cuts.
	sparse := map[int]bool(nil)
	if px := fView.Bounds.Dx() * fView.Bounds.Dy(); int64(px)*int64(len(full)) > 60e6 {
		sparse = map[int]bool{}
		for n := 0; n < 160; n++ {
			sparse[n] = true
		}
		for n := len(full) - 40; n < len(full); n++ {
			sparse[n] = true
		}
		for k := 0; k < 96; k++ {
			sparse[int(int64(len(full))*int64(k)/96)] = true
		}
		if rf != nil {
			for _, ch := range rf.Chunks {
				for d := -3; d <= 11; d++ {
					sparse[ch.Off+d] = true
					sparse[ch.Off+len(ch.Data)+d] = true
				}
			}
		}
		o.Label("prefixes=thinned")
	}
	checked := 0
	for n := 0; n < len(full); n++ {
		if sparse != nil && !sparse[n] {
			continue
		}
		checked++
		pre := full[:n:n]
		img, err := webp.Decode(bytes.NewReader(pre))
		if err == nil {
			okPrefixes++
			v := viewOf(img, nil)
			if v.Type != fView.Type || v.Bounds != fView.Bounds || !bytes.Equal(v.Pix, fView.Pix) {
				d := firstDiff(v.Pix, fView.Pix)
				return fmt.Errorf("prefix of %d/%d bytes decodes without error to a different picture (%s %v vs %s %v, first differing sample %d) layout %s", n, len(full), v.Type, v.Bounds, fView.Type, fView.Bounds, d, layout)
			}
		} else {
			errPrefixes++
		}
		// the same prefix through a reader without Len() that delivers the bytes in another legal way
		// (plain, one byte per Read, half reads, data together with io.EOF, small buffers): the kind
		// rotates with the prefix length
		rk := readerKinds[n%len(readerKinds)]
		img2, err2 := webp.Decode(rk.New(pre))
		if (err2 == nil) != (err == nil) {
			return fmt.Errorf("prefix of %d/%d bytes: Decode from a bytes.Reader err=%v, from a %s reader err=%v (layout %s)", n, len(full), err, rk.Name, err2, layout)
		}
		if err2 == nil {
			v := viewOf(img2, nil)
			if v.Type != fView.Type || v.Bounds != fView.Bounds || !bytes.Equal(v.Pix, fView.Pix) {
				return fmt.Errorf("prefix of %d/%d bytes read from a plain io.Reader decodes without error to a different picture (layout %s)", n, len(full), layout)
			}
		}
		// the same prefix from a source that fails instead of ending (a dropped connection, a short file on a failing
		// disk): the bytes delivered are the same, so the answer must again be an error or the complete file's answer
		if n%3 == 0 {
			er := func() io.Reader { return io.MultiReader(bytes.NewReader(pre), iotest.ErrReader(errInjectedRead)) }
			if img3, err3 := webp.Decode(er()); err3 == nil {
				v := viewOf(img3, nil)
				if v.Type != fView.Type || v.Bounds != fView.Bounds || !bytes.Equal(v.Pix, fView.Pix) {
					return fmt.Errorf("%d/%d bytes followed by a read error: Decode returns a different picture without error (layout %s)", n, len(full), layout)
				}
			}
			if cfg, err := webp.DecodeConfig(er()); err == nil {
				if cfg.Width != fCfg.Width || cfg.Height != fCfg.Height || cfg.ColorModel != fCfg.ColorModel {
					return fmt.Errorf("%d/%d bytes followed by a read error: DecodeConfig reports %dx%d, complete file %dx%d (layout %s)", n, len(full), cfg.Width, cfg.Height, fCfg.Width, fCfg.Height, layout)
				}
			}
			if ft, err := webp.GetFeatures(er()); err == nil {
				if !reflect.DeepEqual(*ft, *fFeat) {
					return fmt.Errorf("%d/%d bytes followed by a read error: GetFeatures reports %+v, complete file %+v (layout %s)", n, len(full), *ft, *fFeat, layout)
				}
			}
		}
		if cfg, err := webp.DecodeConfig(rk.New(pre)); err == nil {
			if cfg.Width != fCfg.Width || cfg.Height != fCfg.Height || cfg.ColorModel != fCfg.ColorModel {
				return fmt.Errorf("DecodeConfig (plain io.Reader) on a %d/%d-byte prefix reports %dx%d, complete file %dx%d (layout %s)", n, len(full), cfg.Width, cfg.Height, fCfg.Width, fCfg.Height, layout)
			}
		}
		if ft, err := webp.GetFeatures(rk.New(pre)); err == nil {
			if !reflect.DeepEqual(*ft, *fFeat) {
				return fmt.Errorf("GetFeatures (plain io.Reader) on a %d/%d-byte prefix reports %+v, complete file %+v (layout %s)", n, len(full), *ft, *fFeat, layout)
			}
		}
		if cfg, err := webp.DecodeConfig(bytes.NewReader(pre)); err == nil {
			if cfg.Width != fCfg.Width || cfg.Height != fCfg.Height || cfg.ColorModel != fCfg.ColorModel {
				return fmt.Errorf("DecodeConfig on a %d/%d-byte prefix reports %dx%d model %v, complete file %dx%d model %v (layout %s)", n, len(full), cfg.Width, cfg.Height, modelName(cfg.ColorModel), fCfg.Width, fCfg.Height, modelName(fCfg.ColorModel), layout)
			}
		}
		if ft, err := webp.GetFeatures(bytes.NewReader(pre)); err == nil {
			if !reflect.DeepEqual(*ft, *fFeat) {
				return fmt.Errorf("GetFeatures on a %d/%d-byte prefix reports %+v, complete file %+v (layout %s)", n, len(full), *ft, *fFeat, layout)
			}
		}
	}
	core.AddExtra("prefixes_checked", int64(checked))
	core.AddExtra("prefixes_decoding_ok", int64(okPrefixes))
	o.Label("kind=" + c.Kind)
	o.Label("layout=" + layout)
	o.SampleJSON = map[string]any{"kind": c.Kind, "desc": c.Desc, "len": len(full), "layout": layout, "prefixes_ok": okPrefixes}
	o.NonTrivial("%s|%s|%s", c.Kind, layout, fView.Type)
	return nil
}

var errInjectedRead = errors.New("verif: injected read failure")

func modelName(m any) string { return fmt.Sprintf("%p", m) }

func TestC17(t *testing.T) { core.Run(t, "C17", genC17, checkC17) }
