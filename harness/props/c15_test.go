package props

import (
	"bytes"
	"fmt"
	"image"
	"testing"
	"time"

	"github.com/deepteams/webp/animation"
	"github.com/deepteams/webp/mux"
	"github.com/deepteams/webp/verifharness/core"
	"github.com/deepteams/webp/verifharness/gen"
	"github.com/deepteams/webp/verifharness/ref/riffwalk"
	"pgregory.net/rapid"
)

// C15: metadata is stored byte-exact and never affects the picture.

type c15Case struct {
	Kind   string // still | anim
	Img    *gen.Img
	Frames []*gen.Img // anim: further frames (same size as Img)
	Opts   *gen.Opts  // still: full options incl. metadata; anim: Lossless/Quality + metadata used
	Big    int        // thorough: size of an oversized blob test (0 = none)
	// LongFrames > 0: the animation has this many frames (around the readers' 1000-chunk bookkeeping
	// limit) of a tiny canvas, each differing from the previous one in one pixel
	LongFrames int
	// Arena: the three blobs are handed over as consecutive sub-slices of one buffer (spare capacity behind each,
	// the next blob's bytes lying directly behind the previous one), as a caller that parsed them out of a file would
	Arena bool
}

func genC15(t *rapid.T) *c15Case {
	c := &c15Case{Kind: rapid.SampledFrom([]string{"still", "still", "anim"}).Draw(t, "kind")}
	// every source type and placement: the metadata and plain paths of Encode convert pixels separately
	cfg := gen.ImgCfg{MaxSide: 32}
	if c.Kind == "anim" {
		cfg = gen.ImgCfg{MaxSide: 32, Kinds: []string{"nrgba", "rgba", "generic"}, Places: []string{"tight"}}
	}
	c.Img = gen.DrawImg(t, cfg)
	if rapid.Bool().Draw(t, "lossless") {
		c.Opts = gen.DrawLosslessOpts(t)
	} else {
		c.Opts = gen.DrawLossyOpts(t, true) // incl. TargetSize/TargetPSNR: the budget must not depend on metadata
	}
	maxLen := 300
	if rapid.IntRange(0, 19).Draw(t, "bigBlob") == 0 {
		maxLen = 70000
	}
	for {
		c.Opts.DrawMeta(t, maxLen)
		if c.Opts.ICC != nil || c.Opts.EXIF != nil || c.Opts.XMP != nil || !c.Opts.ICCNil || !c.Opts.EXIFNil || !c.Opts.XMPNil {
			break
		}
		// all nil: force one
		c.Opts.EXIF, c.Opts.EXIFNil = []byte{1, 2, 3}, false
		break
	}
	c.Arena = rapid.IntRange(0, 2).Draw(t, "arena") == 0
	if c.Kind == "anim" && rapid.IntRange(0, 39).Draw(t, "longAnim") == 0 {
		c.LongFrames = rapid.SampledFrom([]int{500, 996, 997, 998, 999, 1000, 1001, 1100, 2100}).Draw(t, "longFrames")
		c.Img.W, c.Img.H = rapid.IntRange(1, 4).Draw(t, "longW"), rapid.IntRange(1, 4).Draw(t, "longH")
		c.Img.Kind, c.Img.Place = "nrgba", "tight"
		c.Img.Pix = gen.RenderContent(c.Img.W, c.Img.H, "noise", "opaque", c.Img.Garbage)
		return c
	}
	if c.Kind == "anim" {
		n := rapid.IntRange(0, 3).Draw(t, "extraFrames")
		for i := 0; i < n; i++ {
			f := gen.DrawImg(t, gen.ImgCfg{MaxSide: 32, Kinds: []string{"nrgba"}, Places: []string{"tight"}})
			// same canvas size: re-render content at the canvas size
			f.W, f.H = c.Img.W, c.Img.H
			f.Pix = gen.RenderContent(f.W, f.H, fixContent(f.Content), f.Alpha, f.Garbage)
			c.Frames = append(c.Frames, f)
		}
	}
	return c
}

func fixContent(s string) string {
	if s == "drawn" {
		return "pal4"
	}
	return s
}

func animEncode(canvasW, canvasH int, frames []image.Image, durs []int, eo *animation.EncodeOptions, icc, exif, xmp []byte, setMeta bool) ([]byte, error) {
	var buf bytes.Buffer
	enc := animation.NewEncoder(&buf, canvasW, canvasH, eo)
	if enc == nil {
		return nil, fmt.Errorf("NewEncoder returned nil")
	}
	if setMeta {
		if icc != nil {
			enc.SetICCProfile(icc)
		}
		if exif != nil {
			enc.SetEXIF(exif)
		}
		if xmp != nil {
			enc.SetXMP(xmp)
		}
	}
	for i, f := range frames {
		if err := enc.AddFrame(f, time.Duration(durs[i])*time.Millisecond); err != nil {
			return nil, err
		}
	}
	if err := enc.Close(); err != nil {
		return nil, err
	}
	return buf.Bytes(), nil
}

func checkBlobs(data []byte, rf *riffwalk.File, icc, exif, xmp []byte) error {
	dmx, err := mux.NewDemuxer(data)
	if err != nil {
		return fmt.Errorf("demuxer rejects the file: %v", err)
	}
	an, err := animation.DecodeBytes(data)
	if err != nil {
		return fmt.Errorf("animation.DecodeBytes rejects the file: %v", err)
	}
	for _, m := range []struct {
		name    string
		id      mux.ChunkID
		want    []byte
		got     []byte
		present bool
		viaAnim []byte
	}{{"ICCP", mux.FourCCICCP, icc, rf.ICC, rf.HasICC, an.ICC}, {"EXIF", mux.FourCCEXIF, exif, rf.EXIF, rf.HasEXIF, an.EXIF}, {"XMP", mux.FourCCXMP, xmp, rf.XMP, rf.HasXMP, an.XMP}} {
		if len(m.want) == 0 {
			if m.present && len(m.got) != 0 {
				return fmt.Errorf("%s chunk with %d bytes although none was given", m.name, len(m.got))
			}
			continue
		}
		if !m.present || !bytes.Equal(m.got, m.want) {
			return fmt.Errorf("%s blob (%d bytes) not stored byte-exact in the file (present=%v, %d bytes)", m.name, len(m.want), m.present, len(m.got))
		}
		g, err := dmx.GetChunk(m.id)
		if err != nil || !bytes.Equal(g, m.want) {
			return fmt.Errorf("%s blob cannot be read back by chunk id: err=%v len=%d want %d", m.name, err, len(g), len(m.want))
		}
		if !bytes.Equal(m.viaAnim, m.want) {
			return fmt.Errorf("%s blob differs through animation.DecodeBytes (len %d want %d)", m.name, len(m.viaAnim), len(m.want))
		}
	}
	return nil
}

func checkC15(c *c15Case, o *core.Obs) error {
	blob := func(b []byte, isNil bool) []byte {
		if isNil && len(b) == 0 {
			return nil
		}
		if b == nil {
			return []byte{}
		}
		return b
	}
	icc, exif, xmp := blob(c.Opts.ICC, c.Opts.ICCNil), blob(c.Opts.EXIF, c.Opts.EXIFNil), blob(c.Opts.XMP, c.Opts.XMPNil)
	if c.Arena {
		arena := append(append(append(append([]byte{}, icc...), exif...), xmp...), 0xa5, 0x5a, 0xa5, 0x5a)
		pristine := append([]byte(nil), arena...)
		carve := func(off int, b []byte) []byte {
			if b == nil {
				return nil
			}
			return arena[off : off+len(b)] // capacity runs on to the end of the arena
		}
		icc, exif, xmp = carve(0, icc), carve(len(icc), exif), carve(len(icc)+len(exif), xmp)
		oc := *c.Opts
		oc.ICC, oc.EXIF, oc.XMP = icc, exif, xmp
		cc := *c
		cc.Opts, cc.Arena = &oc, false
		if err := checkC15(&cc, o); err != nil {
			return fmt.Errorf("blobs carved from one buffer: %v", err)
		}
		// only the bytes of the blobs themselves count: what an implementation does with spare capacity behind the
		// last blob is not something the property speaks about
		if n := len(icc) + len(exif) + len(xmp); !bytes.Equal(arena[:n], pristine[:n]) {
			return fmt.Errorf("a metadata blob handed to the encoder was modified in the caller's buffer (first difference at byte %d; blob lengths %d/%d/%d)", firstDiff(arena[:n], pristine[:n]), len(icc), len(exif), len(xmp))
		}
		o.Label("arena")
		return nil
	}
	subset := fmt.Sprintf("i%d%d e%d%d x%d%d", b2i(len(icc) > 0), len(icc)&1, b2i(len(exif) > 0), len(exif)&1, b2i(len(xmp) > 0), len(xmp)&1)
	o.Label("kind=" + c.Kind)
	o.Labelf("lossless=%v alpha=%v", c.Opts.Lossless, c.Img.HasTransparency())
	o.SampleJSON = map[string]any{"kind": c.Kind, "img": c.Img.Summary(), "frames": 1 + len(c.Frames), "meta": c.Opts.Summary()["meta"], "lossless": c.Opts.Lossless}
	if len(icc)+len(exif)+len(xmp) > 0 {
		o.NonTrivial("%s|%s|l%v|a%v|n%d", c.Kind, subset, c.Opts.Lossless, c.Img.HasTransparency(), len(c.Frames))
	}
	if c.Kind == "still" {
		img := c.Img.Build()
		plain := *c.Opts
		plain.NoMeta()
		flushPools()
		d0, err := encodeImg(img, &plain)
		if err != nil {
			return fmt.Errorf("Encode without metadata: %v", err)
		}
		flushPools()
		d1, err := encodeImg(img, c.Opts)
		if err != nil {
			return fmt.Errorf("Encode with metadata: %v", err)
		}
		r0, err := riffwalk.Parse(d0)
		if err != nil {
			return fmt.Errorf("structure (no metadata): %v", err)
		}
		r1, err := riffwalk.Parse(d1)
		if err != nil {
			return fmt.Errorf("structure (metadata): %v", err)
		}
		if err := checkBlobs(d1, r1, icc, exif, xmp); err != nil {
			return err
		}
		f0, f1 := r0.Frames[0], r1.Frames[0]
		if !bytes.Equal(f0.Bitstream, f1.Bitstream) || !bytes.Equal(f0.Alph, f1.Alph) || f0.HasAlph != f1.HasAlph {
			return fmt.Errorf("metadata changed the embedded image bitstream (bitstream %d vs %d bytes, ALPH %d vs %d)", len(f0.Bitstream), len(f1.Bitstream), len(f0.Alph), len(f1.Alph))
		}
		p0, e0 := decodeBytes(d0)
		p1, e1 := decodeBytes(d1)
		if e0 != nil || e1 != nil {
			return fmt.Errorf("decode: %v / %v", e0, e1)
		}
		a, b := toNRGBA(p0), toNRGBA(p1)
		if fmt.Sprintf("%T", p0) != fmt.Sprintf("%T", p1) || len(a) != len(b) {
			return fmt.Errorf("metadata changed the decoded image type/size: %T vs %T", p0, p1)
		}
		for i := range a {
			if a[i] != b[i] {
				return fmt.Errorf("metadata changed decoded pixel %d", i)
			}
		}
		return nil
	}
	// animated
	frames := []image.Image{c.Img.Build()}
	durs := []int{40}
	for i, f := range c.Frames {
		frames = append(frames, f.Build())
		durs = append(durs, 30+i)
	}
	for i := 1; i < c.LongFrames; i++ {
		f := *c.Img
		f.Pix = append([]byte(nil), c.Img.Pix...)
		f.Pix[(i%(f.W*f.H))*4+i%3] ^= byte(1 + i%255) // differs from its predecessor, so it is stored as a frame of its own
		f.Pix[0] = byte(i)
		f.Pix[1] = byte(i >> 8)
		frames = append(frames, f.Build())
		durs = append(durs, 10)
	}
	if c.LongFrames > 0 {
		o.Labelf("long_animation=%d", c.LongFrames)
	}
	eo := &animation.EncodeOptions{Lossless: c.Opts.Lossless, Quality: int(c.Opts.Quality()), LoopCount: 3}
	flushPools()
	d0, err := animEncode(c.Img.W, c.Img.H, frames, durs, eo, nil, nil, nil, false)
	if err != nil {
		return fmt.Errorf("animation encode without metadata: %v", err)
	}
	flushPools()
	d1, err := animEncode(c.Img.W, c.Img.H, frames, durs, eo, icc, exif, xmp, true)
	if err != nil {
		return fmt.Errorf("animation encode with metadata: %v", err)
	}
	r0, err := riffwalk.Parse(d0)
	if err != nil {
		return fmt.Errorf("structure (animation, no metadata): %v", err)
	}
	r1, err := riffwalk.Parse(d1)
	if err != nil {
		return fmt.Errorf("structure (animation, metadata): %v", err)
	}
	if err := checkBlobs(d1, r1, icc, exif, xmp); err != nil {
		return fmt.Errorf("animation encoder: %v", err)
	}
	o.Labelf("anim_output_animated=%v", r1.Animated)
	// pictures: play back both and compare
	pb0, err := playback(d0)
	if err != nil {
		return fmt.Errorf("playback (no metadata): %v", err)
	}
	pb1, err := playback(d1)
	if err != nil {
		return fmt.Errorf("playback (metadata): %v", err)
	}
	if len(pb0.Canvases) != len(pb1.Canvases) {
		// a single picture may be stored as still or as a 1-frame animation; compare pictures only
		if !(len(pb0.Canvases) == 1 && len(pb1.Canvases) == 1) {
			return fmt.Errorf("metadata changed the number of played-back frames: %d vs %d", len(pb0.Canvases), len(pb1.Canvases))
		}
	}
	for i := range pb0.Canvases {
		if at := canvasDiff(pb0.Canvases[i], pb1.Canvases[i]); at >= 0 {
			return fmt.Errorf("metadata changed played-back frame %d (pixel %d)", i, at)
		}
	}
	if len(r0.Frames) == len(r1.Frames) {
		for i := range r0.Frames {
			if !bytes.Equal(r0.Frames[i].Bitstream, r1.Frames[i].Bitstream) || !bytes.Equal(r0.Frames[i].Alph, r1.Frames[i].Alph) {
				return fmt.Errorf("metadata changed the bitstream of frame %d", i)
			}
		}
	}
	return nil
}

func TestC15(t *testing.T) { core.Run(t, "C15", genC15, checkC15) }

// TestC15Limit: blobs over the documented 100 MB cap are rejected with an error; a blob of
// exactly the cap is accepted (thorough tier only: allocates ~400 MB).
func TestC15Limit(t *testing.T) {
	if !tierThorough() {
		t.Skip("thorough only")
	}
	img := image.NewNRGBA(image.Rect(0, 0, 4, 4))
	for i := range img.Pix {
		img.Pix[i] = 255
	}
	const cap100 = 100 * 1024 * 1024
	for _, lossless := range []bool{false, true} {
		o := gen.FromDefault()
		o.Lossless = lossless
		o.NoMeta()
		o.EXIF, o.EXIFNil = make([]byte, cap100+1), false
		ob := &core.Obs{}
		ob.NonTrivial("limit|over|%v", lossless)
		if _, err := encodeImg(img, o); err == nil {
			core.RecordFail("C15", map[string]any{"blob": cap100 + 1, "lossless": lossless}, "Encode accepted a metadata blob above the documented 100 MB cap")
			t.Fatalf("over-limit blob accepted")
		}
		core.Merge("C15", ob)
		o.EXIF = make([]byte, cap100)
		o.EXIF[0], o.EXIF[cap100-1] = 7, 9
		data, err := encodeImg(img, o)
		ob2 := &core.Obs{}
		ob2.NonTrivial("limit|at|%v", lossless)
		if err != nil {
			core.RecordFail("C15", map[string]any{"blob": cap100, "lossless": lossless}, "Encode rejected a blob of exactly the documented cap: "+err.Error())
			t.Fatalf("at-limit blob rejected: %v", err)
		}
		dmx, err := mux.NewDemuxer(data)
		if err != nil {
			t.Fatalf("demux: %v", err)
		}
		g, err := dmx.GetChunk(mux.FourCCEXIF)
		if err != nil || !bytes.Equal(g, o.EXIF) {
			core.RecordFail("C15", map[string]any{"blob": cap100, "lossless": lossless}, "100 MB blob not read back byte-exact")
			t.Fatalf("100MB blob not read back")
		}
		core.Merge("C15", ob2)
	}
}
