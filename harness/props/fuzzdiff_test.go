package props

import (
	"fmt"
	"os"
	"testing"

	"github.com/deepteams/webp/verifharness/core"
	"github.com/deepteams/webp/verifharness/gen"
	"github.com/deepteams/webp/verifharness/ref/cref"
	"github.com/deepteams/webp/verifharness/ref/riffwalk"
	"github.com/deepteams/webp/verifharness/ref/vp8hdr"
	"github.com/deepteams/webp/verifharness/ref/vp8lstrict"
	"github.com/deepteams/webp/verifharness/ref/xref"
	"github.com/deepteams/webp/verifharness/ref/xvp8l"
)

// Native coverage-guided differential targets (thorough tier). The input is a raw VP8L / VP8
// bitstream; the oracle is the witness policy of C03/C04: when libwebp AND the vendored x/image
// decoder both accept the bytes and agree on every sample, the package must accept them too and
// return the same samples. Anything else (a witness rejects, witnesses disagree, libwebp not
// loadable) decides nothing.

const fuzzMaxPixels = 1 << 14

// fuzzTrace (development aid): with VERIF_FUZZ_TRACE=<dir> every worker writes its current input to
// <dir>/<pid>.bin before running it, so that the input a dying worker was executing survives.
func fuzzTrace(data []byte) {
	if d := os.Getenv("VERIF_FUZZ_TRACE"); d != "" {
		os.WriteFile(fmt.Sprintf("%s/%d.bin", d, os.Getpid()), data, 0o644)
	}
}

func fuzzSeedsVP8L(f *testing.F) {
	for i := 0; i < 48; i++ {
		p := &gen.VP8LProg{W: 1 + (i*7)%23, H: 1 + (i*5)%17, CacheBits: []int{0, 0, 1, 4, 11}[i%5], RefPct: []int{0, 20, 60}[i%3], CachePct: 10 * (i % 4),
			LitSpread: []int{1, 3, 16, 256}[i%4], CodeStyle: []string{"mixed", "simple", "normal", "rle", "maxsym"}[i%5],
			CodeShape: []string{"balanced", "deep", "random"}[i%3], LongDist: i%2 == 0, LongCopies: i%7 == 0, Seed: uint64(1000 + i)}
		if i%4 == 1 {
			p.MetaBits, p.Groups, p.UnusedGrp = 2+i%3, 1+i%5, i%8 == 1
		}
		switch i % 6 {
		case 1:
			p.Transforms = []gen.VP8LTransform{{Type: 0, Bits: 2 + i%3, Mode1415: i%12 == 1}}
		case 2:
			p.Transforms = []gen.VP8LTransform{{Type: 3, NPal: []int{1, 2, 4, 5, 16, 17, 256}[i%7]}}
		case 3:
			p.Transforms = []gen.VP8LTransform{{Type: 2}, {Type: 1, Bits: 3}, {Type: 0, Bits: 2}}
		case 4:
			p.Transforms = []gen.VP8LTransform{{Type: 1, Bits: 2}, {Type: 3, NPal: 3}, {Type: 0, Bits: 4}, {Type: 2}}
		}
		bs, _ := p.Build()
		f.Add(bs)
	}
	for _, s := range seeds() {
		if rf, err := riffwalk.Parse(s.Data); err == nil && len(rf.Frames) > 0 && rf.Frames[0].BitstreamID == "VP8L" {
			f.Add(rf.Frames[0].Bitstream)
		}
	}
}

func FuzzC03(f *testing.F) {
	fuzzSeedsVP8L(f)
	xvp8l.MaxGroups = 2048 // bounds the witness's work on hostile group counts (the engine kills inputs slower than 10 s)
	f.Fuzz(func(t *testing.T, data []byte) {
		if !cref.Available() || len(data) < 5 || len(data) > 1<<16 || data[0] != 0x2f {
			return
		}
		fuzzTrace(data)
		bits := uint32(data[1]) | uint32(data[2])<<8 | uint32(data[3])<<16 | uint32(data[4])<<24
		w, h := int(bits&0x3fff)+1, int(bits>>14&0x3fff)+1
		if w*h > fuzzMaxPixels {
			return
		}
		// Domain gate: only bytes that /verif's strict validator accepts are "syntactically valid VP8L".
		// Lenient decoders accept degenerate constructs in different ways and can still agree on the
		// pixels by accident (DESIGN.md 13.8), so their agreement alone does not establish validity.
		if vp8lstrict.Validate(data, gen.DistMapXY(), fuzzMaxPixels) != nil {
			return
		}
		d := diffStill(&stillParts{File: xref.Simple("VP8L", data), Bitstream: data, Lossless: true, W: w, H: h, RawToWitness: true})
		if !d.Truth {
			return
		}
		if d.RepoErr != nil {
			t.Fatalf("package rejects a VP8L stream that libwebp and x/image accept and agree on: %v", d.RepoErr)
		}
		if d.Mismatch != "" {
			t.Fatalf("%s", d.Mismatch)
		}
	})
}

func FuzzC04(f *testing.F) {
	for i := 0; i < 40; i++ {
		p := &gen.VP8Prog{}
		*p = *fuzzVP8Prog(i)
		f.Add(p.Build())
	}
	for _, s := range seeds() {
		if rf, err := riffwalk.Parse(s.Data); err == nil && len(rf.Frames) > 0 && rf.Frames[0].BitstreamID == "VP8 " {
			f.Add(rf.Frames[0].Bitstream)
		}
	}
	f.Fuzz(func(t *testing.T, data []byte) {
		if !cref.Available() || len(data) < 10 || len(data) > 1<<16 {
			return
		}
		if data[0]&1 != 0 || data[3] != 0x9d || data[4] != 0x01 || data[5] != 0x2a {
			return // not a key frame
		}
		fuzzTrace(data)
		w, h := int(data[6])|int(data[7]&0x3f)<<8, int(data[8])|int(data[9]&0x3f)<<8
		if w == 0 || h == 0 || w*h > fuzzMaxPixels {
			return
		}
		// Domain: partitions a boolean encoder can produce. A partition whose first byte is 0xff starts
		// the decoder in a state (value >= range) that no encoder output reaches and in which decoders
		// legitimately differ (DESIGN.md 13.2, false alarm 2); the generators exclude it the same way.
		hd, err := vp8hdr.Parse(data)
		if err != nil {
			return
		}
		if data[10] == 0xff {
			return
		}
		off := 10 + hd.Part0Size + 3*(hd.NumPartitions-1)
		for _, sz := range hd.PartSizes {
			if off < len(data) && data[off] == 0xff {
				return
			}
			off += sz
		}
		d := diffStill(&stillParts{File: xref.Simple("VP8 ", data), Bitstream: data, W: w, H: h, RawToWitness: true})
		if !d.Truth {
			return
		}
		if d.RepoErr != nil {
			t.Fatalf("package rejects a VP8 key frame that libwebp and x/image accept and agree on: %v", d.RepoErr)
		}
		if d.Mismatch != "" {
			t.Fatalf("%s", d.Mismatch)
		}
	})
}

func fuzzVP8Prog(i int) *gen.VP8Prog {
	p := &gen.VP8Prog{W: 1 + (i*11)%47, H: 1 + (i*7)%39, Profile: i % 4, Clamp: i % 2, BaseQ: (i * 13) % 128, FilterLevel: []int{0, 10, 63, 33}[i%4],
		FilterSimple: i%3 == 0, Sharpness: i % 8, Log2Parts: i % 4, UseSkip: i%2 == 0, SkipProba: 40 + (i*17)%200,
		ModeSeed: uint64(2000 + i), TokSeed: uint64(3000 + i), TokZeroRun: []int{0, 50, 90, 99}[i%4], TokOnesRun: []int{0, 0, 5, 30}[(i/4)%4]}
	p.SegProbs = [3]int{255, 255, 255}
	if i%3 == 1 {
		p.SegEnabled, p.SegUpdateMap, p.SegUpdateData, p.SegAbs = true, i%2 == 1, true, i%4 == 1
		p.SegQuant = [4]int{i % 60, -(i % 30), 5, 100}
		p.SegFilter = [4]int{3, -3, 20, 0}
		p.SegProbs = [3]int{100, 200, 30}
	}
	if i%5 == 2 {
		p.LFDelta, p.LFDeltaUpdate = true, true
		p.RefDelta = [4]int{2, 0, -2, -2}
		p.ModeDelta = [4]int{4, -2, 2, 4}
	}
	p.QDelta = [5]int{(i % 5) - 2, 0, (i % 3) - 1, 0, i % 2}
	return p
}

// FuzzC16: arbitrary bytes that the strict container validator (riffwalk) accepts as a
// well-formed WebP file must be described consistently by every view (checkC16).
func FuzzC16(f *testing.F) {
	for _, s := range seeds() {
		f.Add(s.Data)
	}
	f.Fuzz(func(t *testing.T, data []byte) {
		if len(data) > 1<<16 {
			return
		}
		rf, err := riffwalk.Parse(data)
		if err != nil || len(rf.Frames) == 0 {
			return
		}
		if riffwalk.DeclaredPixels(data) > 1<<16 {
			return
		}
		o := &core.Obs{}
		if err := checkC16(&c16Case{Source: "fuzz", Desc: "native fuzz input", File: data}, o); err != nil {
			t.Fatalf("%v", err)
		}
	})
}
