package props

import (
	"bytes"
	"crypto/sha256"
	"fmt"
	"image"
	"testing"

	"github.com/deepteams/webp/verifharness/core"
	"github.com/deepteams/webp/verifharness/gen"
	"pgregory.net/rapid"
)

// C19: Encode depends on the picture, not on how the pixels are stored.

type c19Case struct {
	Img     *gen.Img // the picture (Kind/Place ignored; presentations are derived)
	Opts    *gen.Opts
	Variant []c19Variant
	// StdKind != "": the picture is first stored in this standard-library image type (which may round
	// or subsample it); the colours that image yields through At() are then "the picture", and the
	// std-typed image itself, in the placements of StdVariant, is one more presentation of it
	StdKind    string
	StdVariant []c19Variant
}

type c19Variant struct {
	Kind, Place          string
	OX, OY, PadR, PadB   int
	PadBytes             int // stride placement: extra bytes per row beyond whole pixels
	Garbage              uint64
}

func genC19(t *rapid.T) *c19Case {
	cfg := gen.ImgCfg{MaxSide: 40, BigChance: 3, BigSide: 120, Kinds: []string{"nrgba"}, Places: []string{"tight"}, LargePermille: 3}
	if tierThorough() {
		cfg.MaxSide, cfg.BigSide = 64, 280
	}
	c := &c19Case{Img: gen.DrawImg(t, cfg)}
	if rapid.Bool().Draw(t, "lossless") {
		c.Opts = gen.DrawLosslessOpts(t)
	} else {
		c.Opts = gen.DrawLossyOpts(t, false)
	}
	if rapid.IntRange(0, 2).Draw(t, "std") == 0 {
		c.StdKind = rapid.SampledFrom(gen.StdKinds).Draw(t, "stdKind")
		for i := rapid.IntRange(1, 3).Draw(t, "nStd"); i > 0; i-- {
			v := c19Variant{Kind: c.StdKind, Place: rapid.SampledFrom([]string{"tight", "minoff", "sub", "sub"}).Draw(t, "sPlace")}
			// any origin parity: chroma sharing of subsampled types follows absolute coordinates
			v.OX, v.OY = rapid.IntRange(0, 5).Draw(t, "sox"), rapid.IntRange(0, 5).Draw(t, "soy")
			v.PadR, v.PadB = rapid.IntRange(0, 3).Draw(t, "spr"), rapid.IntRange(0, 3).Draw(t, "spb")
			v.Garbage = rapid.Uint64().Draw(t, "sg")
			c.StdVariant = append(c.StdVariant, v)
		}
	}
	opaque := !c.Img.HasTransparency()
	n := rapid.IntRange(3, 6).Draw(t, "nVariants")
	for i := 0; i < n; i++ {
		kinds := []string{"nrgba", "nrgba", "generic"}
		if opaque {
			kinds = append(kinds, "rgba")
		}
		v := c19Variant{Kind: rapid.SampledFrom(kinds).Draw(t, "vKind")}
		places := []string{"sub", "minoff", "stride", "tight"}
		if v.Kind == "generic" {
			places = []string{"minoff", "tight"}
		}
		v.Place = rapid.SampledFrom(places).Draw(t, "vPlace")
		v.OX, v.OY = rapid.IntRange(0, 11).Draw(t, "vox"), rapid.IntRange(0, 11).Draw(t, "voy")
		v.PadR, v.PadB = rapid.IntRange(0, 7).Draw(t, "vpr"), rapid.IntRange(0, 7).Draw(t, "vpb")
		if v.Place == "stride" {
			v.PadBytes = rapid.SampledFrom([]int{0, 0, 1, 2, 3, 5, 6, 13}).Draw(t, "vpbytes")
		}
		v.Garbage = rapid.Uint64().Draw(t, "vg")
		c.Variant = append(c.Variant, v)
	}
	return c
}

func backingHash(s *gen.Img, img image.Image) [32]byte {
	if b := s.Backing(); b != nil {
		return sha256.Sum256(b)
	}
	if m, ok := img.(*gen.Generic); ok {
		h := sha256.New()
		for _, p := range m.P {
			h.Write([]byte{p.R, p.G, p.B, p.A})
		}
		var out [32]byte
		copy(out[:], h.Sum(nil))
		return out
	}
	return [32]byte{}
}

// c19StdPresentation encodes the std-typed image of variant v and returns its bytes together with
// the colours it yields (read through At).
func c19StdImage(orig *gen.Img, v c19Variant) image.Image {
	s := *orig
	s.Kind, s.Place, s.OX, s.OY, s.PadR, s.PadB, s.PadBytes, s.Garbage = v.Kind, v.Place, v.OX, v.OY, v.PadR, v.PadB, v.PadBytes, v.Garbage
	return s.Build()
}

func checkC19(c *c19Case, o *core.Obs) error {
	if c.StdKind != "" && len(c.StdVariant) > 0 {
		// each std-typed presentation must encode exactly like a tight NRGBA holding the colours it yields
		for _, v := range c.StdVariant {
			img := c19StdImage(c.Img, v)
			truth := gen.Truth(img)
			n := image.NewNRGBA(image.Rect(0, 0, c.Img.W, c.Img.H))
			for i, p := range truth {
				n.Pix[i*4], n.Pix[i*4+1], n.Pix[i*4+2], n.Pix[i*4+3] = p.R, p.G, p.B, p.A
			}
			flushPools()
			want, err1 := encodeImg(n, c.Opts)
			flushPools()
			got, err2 := encodeImg(img, c.Opts)
			if err1 != nil || err2 != nil {
				return fmt.Errorf("Encode failed: nrgba=%v %s=%v", err1, v.Kind, err2)
			}
			if !bytes.Equal(want, got) {
				return fmt.Errorf("lossless=%v: a %s image (%s, origin %d,%d) gives different bytes than an *image.NRGBA at the origin holding the colours it yields (len %d vs %d, first diff at %d)",
					c.Opts.Lossless, v.Kind, v.Place, v.OX, v.OY, len(got), len(want), firstDiff(want, got))
			}
			if again := gen.Truth(img); fmt.Sprint(again) != fmt.Sprint(truth) {
				return fmt.Errorf("Encode modified the caller's %s image", v.Kind)
			}
			o.Label("variant=" + v.Kind + "/" + v.Place)
			o.Labelf("std_origin_odd=%v", (v.Place != "tight") && (v.OX&1 == 1 || v.OY&1 == 1))
		}
	}
	base := *c.Img
	base.Kind, base.Place = "nrgba", "tight"
	flushPools()
	ref, err := encodeImg(base.Build(), c.Opts)
	if err != nil {
		return fmt.Errorf("Encode rejected a valid request: %v", err)
	}
	codec := "lossy"
	if c.Opts.Lossless {
		codec = "lossless"
	}
	o.Label("codec=" + codec)
	o.Labelf("alpha=%v", c.Img.HasTransparency())
	kinds := ""
	for _, v := range c.Variant {
		s := base
		s.Kind, s.Place, s.OX, s.OY, s.PadR, s.PadB, s.PadBytes, s.Garbage = v.Kind, v.Place, v.OX, v.OY, v.PadR, v.PadB, v.PadBytes, v.Garbage
		img := s.Build()
		before := backingHash(&s, img)
		flushPools()
		got, err := encodeImg(img, c.Opts)
		if err != nil {
			return fmt.Errorf("Encode(%s/%s) failed: %v", v.Kind, v.Place, err)
		}
		if backingHash(&s, img) != before {
			return fmt.Errorf("Encode modified the caller's image (%s/%s)", v.Kind, v.Place)
		}
		if !bytes.Equal(ref, got) {
			return fmt.Errorf("%s: presentation %s/%s (origin %d,%d pad %d,%d) gives different bytes than the tight NRGBA at the origin (len %d vs %d, first diff at %d)",
				codec, v.Kind, v.Place, v.OX, v.OY, v.PadR, v.PadB, len(got), len(ref), firstDiff(ref, got))
		}
		// out-of-bounds bytes must not matter: same presentation, other garbage
		if v.Place == "sub" || v.Place == "stride" {
			s.Garbage ^= 0xdeadbeefcafe
			flushPools()
			got2, err := encodeImg(s.Build(), c.Opts)
			if err != nil || !bytes.Equal(ref, got2) {
				return fmt.Errorf("%s: bytes outside the picture's bounds changed the output (%s/%s) err=%v", codec, v.Kind, v.Place, err)
			}
		}
		o.Label("variant=" + v.Kind + "/" + v.Place)
		kinds += v.Kind[:1] + v.Place[:2] + ","
	}
	// second pass: the same presentations back to back WITHOUT emptying the pools in between (the
	// state real callers meet); every result must still be the reference bytes
	for round := 0; round < 2; round++ {
		for _, v := range c.Variant {
			s := base
			s.Kind, s.Place, s.OX, s.OY, s.PadR, s.PadB, s.PadBytes, s.Garbage = v.Kind, v.Place, v.OX, v.OY, v.PadR, v.PadB, v.PadBytes, v.Garbage
			got, err := encodeImg(s.Build(), c.Opts)
			if err != nil || !bytes.Equal(ref, got) {
				return fmt.Errorf("%s: presentation %s/%s encoded right after other presentations of the same picture gives different bytes than the tight NRGBA at the origin (err=%v, len %d vs %d)", codec, v.Kind, v.Place, err, len(got), len(ref))
			}
		}
		if round == 0 {
			// interleave an unrelated picture of the same size so that pooled buffers hold other content
			other := base
			other.Pix = gen.RenderContent(base.W, base.H, "noise", "opaque", base.Garbage^0x1234)
			encodeImg(other.Build(), c.Opts)
		}
	}
	o.SampleJSON = map[string]any{"img": c.Img.Summary(), "opts": c.Opts.Summary(), "variants": kinds}
	if c.Img.Colors >= 2 && len(c.Variant) >= 3 {
		o.NonTrivial("%s|a%v|e%v|s%v|p%d|m%d|%s", codec, c.Img.HasTransparency(), c.Opts.Exact, c.Opts.UseSharpYUV, c.Opts.Preprocessing, c.Opts.Method, kinds)
	}
	return nil
}

func TestC19(t *testing.T) { core.Run(t, "C19", genC19, checkC19) }
