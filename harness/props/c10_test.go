package props

import (
	"bytes"
	"fmt"
	"runtime"
	"sync"
	"testing"
	"time"

	"github.com/deepteams/webp/internal/verifhook"
	"github.com/deepteams/webp/verifharness/core"
	"github.com/deepteams/webp/verifharness/gen"
	"pgregory.net/rapid"
)

// C10: results do not depend on goroutine scheduling or concurrent use.

// ---- part (a): perturbed schedules of the row-pipelined lossy encoder ----

type c10Delay struct {
	Site   string // wait wait.registered signal signal.stored claim export
	RowMod int    // applies to rows with y % RowMod == RowRes
	RowRes int
	Kind   string // gosched | sleep
	N      int    // gosched count or microseconds
}

type c10SchedCase struct {
	Img     *gen.Img
	Opts    *gen.Opts
	Workers int
	Plan    []c10Delay
}

func genC10Sched(t *rapid.T) *c10SchedCase {
	c := &c10SchedCase{}
	w := rapid.IntRange(8, 100).Draw(t, "w")
	h := rapid.IntRange(49, 150).Draw(t, "h")
	content := rapid.SampledFrom([]string{"photo", "noise", "pal16", "gradient", "tiled"}).Draw(t, "content")
	c.Img = &gen.Img{W: w, H: h, Kind: "nrgba", Place: "tight", Content: content, Alpha: rapid.SampledFrom([]string{"opaque", "opaque", "gradient"}).Draw(t, "alpha")}
	c.Img.Pix = gen.RenderContent(w, h, content, c.Img.Alpha, rapid.Uint64().Draw(t, "seed"))
	c.Opts = gen.DrawLossyOpts(t, false)
	c.Opts.Method = rapid.IntRange(3, 6).Draw(t, "method")
	c.Workers = rapid.IntRange(2, 6).Draw(t, "workers")
	n := rapid.IntRange(0, 5).Draw(t, "nDelays")
	for i := 0; i < n; i++ {
		d := c10Delay{Site: rapid.SampledFrom([]string{"wait", "wait.registered", "signal", "signal.stored", "claim", "export"}).Draw(t, "site")}
		d.RowMod = rapid.IntRange(1, 4).Draw(t, "rowMod")
		d.RowRes = rapid.IntRange(0, d.RowMod-1).Draw(t, "rowRes")
		d.Kind = rapid.SampledFrom([]string{"gosched", "gosched", "sleep"}).Draw(t, "kind")
		if d.Kind == "gosched" {
			d.N = rapid.IntRange(1, 20).Draw(t, "n")
		} else {
			d.N = rapid.IntRange(1, 200).Draw(t, "us")
		}
		c.Plan = append(c.Plan, d)
	}
	return c
}

// withWatchdog runs f and reports a hang instead of blocking forever. It tells a hang from a
// loaded machine (core.Guard): a deadlock shows as a process that no longer uses CPU; otherwise f
// may take up to 200x the reference duration ref (the same work measured just before). Without a
// reference a run that is merely slow ends the case as inconclusive (errSlow).
var errSlow = core.ErrTimeBudget

func withWatchdog(limit, ref time.Duration, f func() error) error { return core.Guard(limit, ref, f) }

func checkC10Sched(c *c10SchedCase, o *core.Obs) error {
	hookMu.Lock()
	defer hookMu.Unlock()
	old := runtime.GOMAXPROCS(8)
	defer runtime.GOMAXPROCS(old)
	img := c.Img.Build()
	// baseline: the same pipelined algorithm with a single worker, unperturbed
	verifhook.OnWorkers = func(site string, n int) int {
		if site == "lossy.rows" {
			return 1
		}
		return n
	}
	var base []byte
	t0 := time.Now()
	err := withWatchdog(90*time.Second, 0, func() error {
		flushPools()
		var e error
		base, e = encodeImg(img, c.Opts)
		return e
	})
	baseDur := time.Since(t0)
	verifhook.OnWorkers = nil
	if err == errSlow {
		o.Inconclusive("single-worker Encode exceeded the time budget on this machine")
		return nil
	}
	if err != nil {
		return fmt.Errorf("single-worker Encode: %v", err)
	}
	// perturbed run
	var inFlight, maxInFlight int32
	var mu sync.Mutex
	rows := map[int]bool{}
	verifhook.OnWorkers = func(site string, n int) int {
		if site == "lossy.rows" && c.Workers <= n {
			return c.Workers
		}
		return n
	}
	verifhook.OnYield = func(site string, y, x int) {
		if site == "claim" {
			mu.Lock()
			rows[y] = true
			inFlight++
			if inFlight > maxInFlight {
				maxInFlight = inFlight
			}
			mu.Unlock()
		}
		for _, d := range c.Plan {
			if d.Site == site && y%d.RowMod == d.RowRes {
				if d.Kind == "gosched" {
					for i := 0; i < d.N; i++ {
						runtime.Gosched()
					}
				} else {
					time.Sleep(time.Duration(d.N) * time.Microsecond)
				}
			}
		}
	}
	var got []byte
	err = withWatchdog(90*time.Second, baseDur+time.Second, func() error {
		flushPools()
		var e error
		got, e = encodeImg(img, c.Opts)
		return e
	})
	verifhook.OnYield = nil
	verifhook.OnWorkers = nil
	if err != nil {
		return fmt.Errorf("perturbed Encode: %v", err)
	}
	o.Labelf("workers=%d delays=%d", c.Workers, len(c.Plan))
	kinds := ""
	for _, d := range c.Plan {
		kinds += d.Site + ":" + d.Kind + ","
	}
	o.SampleJSON = map[string]any{"img": c.Img.Summary(), "method": c.Opts.Method, "workers": c.Workers, "plan": kinds, "rows_claimed": len(rows)}
	if len(rows) >= 4 {
		o.NonTrivial("sched|w%d|%s|m%d", c.Workers, kinds, c.Opts.Method)
	}
	if !bytes.Equal(base, got) {
		return fmt.Errorf("row-pipelined encoder: %d workers with schedule plan [%s] give %d bytes, single unperturbed worker gives %d bytes (first difference at %d)", c.Workers, kinds, len(got), len(base), firstDiff(base, got))
	}
	return nil
}

func TestC10Sched(t *testing.T) { core.Run(t, "C10", genC10Sched, checkC10Sched) }

// ---- part (b): concurrent use of the public API ----

type c10ConcCase struct {
	Lists [][]c11Op // one op list per goroutine
	Procs int
}

func genC10Conc(t *rapid.T) *c10ConcCase {
	c := &c10ConcCase{Procs: rapid.SampledFrom([]int{2, 4, 8, 16}).Draw(t, "procs")}
	g := rapid.IntRange(2, 10).Draw(t, "goroutines")
	if rapid.IntRange(0, 2).Draw(t, "poolMode") == 0 {
		// pool-collision mode: every goroutine decodes the same few medium-sized files (long enough calls
		// to overlap), some of them truncated so that error paths return objects to the pools while other
		// goroutines are taking objects out
		type pf struct {
			name string
			data []byte
		}
		var files []pf
		nf := rapid.IntRange(1, 3).Draw(t, "poolFiles")
		for k := 0; k < nf; k++ {
			w, h := rapid.IntRange(48, 200).Draw(t, "pw"), rapid.IntRange(48, 200).Draw(t, "ph")
			content := rapid.SampledFrom([]string{"photo", "noise", "tiled", "pal16"}).Draw(t, "pcontent")
			alpha := rapid.SampledFrom([]string{"opaque", "opaque", "gradient"}).Draw(t, "palpha")
			lossless := rapid.IntRange(0, 2).Draw(t, "plossless") == 0
			im := mkImg(w, h, content, alpha, rapid.Uint64().Draw(t, "pseed"))
			data := mustEncode(im, func(o *gen.Opts) { o.Lossless = lossless; o.Method = 2 })
			files = append(files, pf{fmt.Sprintf("pool-%dx%d-l%v-%s", w, h, lossless, alpha), data})
			cut := len(data) * rapid.IntRange(30, 97).Draw(t, "pcut") / 100
			cutData := append([]byte(nil), data[:cut]...)
			if rapid.Bool().Draw(t, "pfix") {
				// size fields rewritten to the shortened length: the container is consistent, the
				// bitstream ends early (the error surfaces deep inside the frame decoder)
				cutData = gen.TruncateFix(data, cut)
			}
			files = append(files, pf{fmt.Sprintf("pool-%dx%d-l%v-%s/cut%d", w, h, lossless, alpha, cut), cutData})
		}
		for i := 0; i < g; i++ {
			var ops []c11Op
			n := rapid.IntRange(3, 6).Draw(t, "pops")
			for k := 0; k < n; k++ {
				f := files[rapid.IntRange(0, len(files)-1).Draw(t, "pfile")]
				ops = append(ops, c11Op{Kind: "dec", Name: f.name, File: f.data})
			}
			c.Lists = append(c.Lists, ops)
		}
		return c
	}
	for i := 0; i < g; i++ {
		sub := genC11(t)
		if len(sub.Ops) > 6 {
			sub.Ops = sub.Ops[:6]
		}
		c.Lists = append(c.Lists, sub.Ops)
	}
	return c
}

func checkC10Conc(c *c10ConcCase, o *core.Obs) error {
	hookMu.Lock()
	defer hookMu.Unlock()
	old := runtime.GOMAXPROCS(c.Procs)
	defer runtime.GOMAXPROCS(old)
	// expectations: every call alone, from a fresh state
	exp := make([][]string, len(c.Lists))
	t0 := time.Now()
	if err := withWatchdog(180*time.Second, 0, func() error {
		for i, l := range c.Lists {
			for k := range l {
				flushPools()
				exp[i] = append(exp[i], runC11Op(&l[k]).Digest)
			}
		}
		return nil
	}); err == errSlow {
		o.Inconclusive("stand-alone expectations exceeded the time budget on this machine")
		return nil
	} else if err != nil {
		return fmt.Errorf("sequential expectations: %v", err)
	}
	seqDur := time.Since(t0)
	var hits int64
	var hmu sync.Mutex
	verifhook.OnPool = func(name string, hit bool) {
		if hit {
			hmu.Lock()
			hits++
			hmu.Unlock()
		}
	}
	defer func() { verifhook.OnPool = nil }()
	flushPools()
	errs := make([]error, len(c.Lists))
	yieldingWriters.Store(true)
	defer yieldingWriters.Store(false)
	err := withWatchdog(180*time.Second, seqDur+time.Second, func() error {
		var wg sync.WaitGroup
		start := make(chan struct{})
		for i := range c.Lists {
			wg.Add(1)
			go func(i int) {
				defer wg.Done()
				defer func() {
					if p := recover(); p != nil {
						errs[i] = fmt.Errorf("panic in goroutine %d: %v\n%s", i, p, stackTrace())
					}
				}()
				<-start
				var kept []*c11Result
				for k := range c.Lists[i] {
					r := runC11Op(&c.Lists[i][k])
					kept = append(kept, r)
					if r.Digest != exp[i][k] && errs[i] == nil {
						errs[i] = fmt.Errorf("goroutine %d call %d (%s %s): got %q under concurrency, %q when run alone", i, k, c.Lists[i][k].Kind, opDesc(&c.Lists[i][k]), clip(r.Digest), clip(exp[i][k]))
					}
				}
				for k, r := range kept {
					if !r.intact() && errs[i] == nil {
						errs[i] = fmt.Errorf("goroutine %d: a value returned by call %d was modified while other goroutines ran", i, k)
					}
				}
			}(i)
		}
		close(start)
		wg.Wait()
		return nil
	})
	if err != nil {
		return err
	}
	for _, e := range errs {
		if e != nil {
			return e
		}
	}
	total := 0
	mix := map[string]bool{}
	for _, l := range c.Lists {
		total += len(l)
		for _, op := range l {
			mix[op.Kind] = true
		}
	}
	o.Labelf("goroutines=%d", bucket(len(c.Lists)))
	o.SampleJSON = map[string]any{"goroutines": len(c.Lists), "calls": total, "procs": c.Procs, "pool_hits": hits}
	if len(c.Lists) >= 2 && hits > 0 {
		o.NonTrivial("conc|g%d|p%d|%v|%d", len(c.Lists), c.Procs, len(mix), total)
	}
	return nil
}

func TestC10Conc(t *testing.T) { core.Run(t, "C10", genC10Conc, checkC10Conc) }

// ---- part (c): the lossless coder's and decoder's parallel sections ----

type c10LLCase struct {
	C12        *c12Case
	Goroutines int
	Procs      int
}

func genC10LL(t *rapid.T) *c10LLCase {
	c := &c10LLCase{C12: genC12(t)}
	// lossless only, sized to engage the tile-parallel and range-parallel sections
	if !c.C12.Opts.Lossless {
		c.C12.Opts = gen.DrawLosslessOpts(t)
	}
	if rapid.IntRange(0, 3).Draw(t, "q90") != 0 {
		c.C12.Opts.SetQuality(float32(rapid.IntRange(90, 100).Draw(t, "q")))
	}
	if c.C12.Img.W*c.C12.Img.H < 50000 || rapid.Bool().Draw(t, "llredraw") {
		w := rapid.IntRange(200, 400).Draw(t, "llw")
		h := 50001/w + 1 + rapid.IntRange(0, 160).Draw(t, "llh")
		content := rapid.SampledFrom([]string{"regions", "regions", "bands", "bands", "bands", "tiled", "photo", "pal16"}).Draw(t, "llcontent")
		c.C12.Img = &gen.Img{W: w, H: h, Kind: "nrgba", Place: "tight", Content: content, Alpha: "opaque", Colors: 300}
		c.C12.Img.Pix = gen.RenderContent(w, h, content, "opaque", rapid.Uint64().Draw(t, "llseed"))
	}
	if c.C12.Opts.Method > 4 {
		c.C12.Opts.Method = 4
	}
	c.Goroutines = rapid.IntRange(1, 3).Draw(t, "llgoroutines")
	c.Procs = rapid.SampledFrom([]int{3, 4, 5, 8, 16}).Draw(t, "llprocs")
	return c
}

func checkC10LL(c *c10LLCase, o *core.Obs) error {
	hookMu.Lock()
	defer hookMu.Unlock()
	old := runtime.GOMAXPROCS(c.Procs)
	defer runtime.GOMAXPROCS(old)
	img := c.C12.Img.Build()
	// reference: every parallel site pinned to one worker
	verifhook.OnWorkers = func(site string, n int) int { return 1 }
	flushPools()
	t0 := time.Now()
	ref, err := encodeImg(img, c.C12.Opts)
	var refPix []byte
	if err == nil {
		if d, e := decodeBytes(ref); e == nil {
			refPix = viewOf(d, nil).Pix
		} else {
			err = e
		}
	}
	verifhook.OnWorkers = nil
	if err != nil {
		return fmt.Errorf("single-worker reference: %v", err)
	}
	engaged := map[string]bool{}
	var emu sync.Mutex
	verifhook.OnWorkers = func(site string, n int) int {
		if n > 1 {
			emu.Lock()
			engaged[site] = true
			emu.Unlock()
		}
		return n
	}
	defer func() { verifhook.OnWorkers = nil }()
	errs := make([]error, c.Goroutines)
	refDur := time.Since(t0)
	yieldingWriters.Store(true)
	defer yieldingWriters.Store(false)
	werr := withWatchdog(240*time.Second, 2*time.Duration(c.Goroutines)*refDur+time.Second, func() error {
		var wg sync.WaitGroup
		for g := 0; g < c.Goroutines; g++ {
			wg.Add(1)
			go func(g int) {
				defer wg.Done()
				for rep := 0; rep < 2; rep++ {
					got, e := encodeImg(img, c.C12.Opts)
					if e != nil {
						errs[g] = e
						return
					}
					if !bytes.Equal(got, ref) {
						errs[g] = fmt.Errorf("lossless Encode with %d-way parallel sections (goroutine %d of %d, GOMAXPROCS %d) gives %d bytes, with every parallel section pinned to one worker %d bytes", c.Procs, g, c.Goroutines, c.Procs, len(got), len(ref))
						return
					}
					d, e := decodeBytes(got)
					if e != nil || !bytes.Equal(viewOf(d, nil).Pix, refPix) {
						errs[g] = fmt.Errorf("parallel lossless Decode differs from the single-worker decode (err=%v)", e)
						return
					}
				}
			}(g)
		}
		wg.Wait()
		return nil
	})
	if werr != nil {
		return werr
	}
	for _, e := range errs {
		if e != nil {
			return e
		}
	}
	sites := ""
	for s := range engaged {
		sites += s + ","
		o.Label("site=" + s)
	}
	o.SampleJSON = map[string]any{"img": c.C12.Img.Summary(), "opts": c.C12.Opts.Summary(), "procs": c.Procs, "goroutines": c.Goroutines}
	if len(engaged) > 0 {
		o.NonTrivial("ll|p%d g%d|m%d|%d sites|%s", c.Procs, c.Goroutines, c.C12.Opts.Method, len(engaged), c.C12.Img.Content)
	}
	return nil
}

func TestC10Lossless(t *testing.T) { core.Run(t, "C10", genC10LL, checkC10LL) }
