package props

import (
	"image/color"
	"fmt"
	"testing"
	"time"

	"github.com/deepteams/webp/animation"
	"github.com/deepteams/webp/verifharness/core"
	"github.com/deepteams/webp/verifharness/gen"
	"github.com/deepteams/webp/verifharness/ref/riffwalk"
	"pgregory.net/rapid"
)

// C18: animations keep their transparency in lossy and mixed-codec modes.

type c18Case struct {
	Seq      *gen.AnimSeq
	Lossless bool
	Mixed    bool
	Quality  int
}

func genC18(t *rapid.T) *c18Case {
	maxC, maxF := 24, 6
	if tierThorough() {
		maxC, maxF = 56, 10
	}
	c := &c18Case{
		Seq:      gen.DrawAnimSeq(t, maxC, maxF, 1, []string{"binary", "binary", "levels", "gradient", "noise", "semi-flat", "semi-strip", "transp-colored", "opaque"}),
		Lossless: rapid.IntRange(0, 3).Draw(t, "lossless") == 0,
		Mixed:    rapid.Bool().Draw(t, "mixed"),
		Quality:  rapid.SampledFrom([]int{0, 30, 75, 95, 100}).Draw(t, "quality"),
	}
	return c
}

func checkC18(c *c18Case, o *core.Obs) error {
	s := c.Seq
	imgs, durs := seqImages(s)
	eo := &animation.EncodeOptions{Lossless: c.Lossless, AllowMixed: c.Mixed, Quality: c.Quality, Kmin: s.Kmin, Kmax: s.Kmax, LoopCount: s.Loop, BackgroundColor: color.NRGBA{R: s.BG[0], G: s.BG[1], B: s.BG[2], A: s.BG[3]}}
	data, err := animEncode(s.CW, s.CH, imgs, durs, eo, nil, nil, nil, false)
	if err != nil {
		return fmt.Errorf("animation encoder failed: %v", err)
	}
	rf, err := riffwalk.Parse(data)
	if err != nil {
		return fmt.Errorf("emitted file is not a well-formed container: %v", err)
	}
	pb, err := playback(data)
	if err != nil {
		return fmt.Errorf("playback: %v", err)
	}
	if pb.W != s.CW || pb.H != s.CH {
		return fmt.Errorf("canvas %dx%d, want %dx%d", pb.W, pb.H, s.CW, s.CH)
	}
	exp := expectedCanvases(s)
	lossyFrames, llFrames, sub := 0, 0, false
	for _, fr := range rf.Frames {
		if fr.Lossless {
			llFrames++
		} else {
			lossyFrames++
		}
		if fr.X != 0 || fr.Y != 0 || fr.W != s.CW || fr.H != s.CH {
			sub = true
		}
	}
	anyTransp := false
	for _, e := range exp {
		for i := 3; i < len(e.Pix); i += 4 {
			if e.Pix[i] != 255 {
				anyTransp = true
			}
		}
	}
	o.Labelf("mode lossless=%v mixed=%v", c.Lossless, c.Mixed)
	o.Labelf("alpha=%s", s.Alpha)
	o.Labelf("codecs lossy=%v lossless=%v", lossyFrames > 0, llFrames > 0)
	o.SampleJSON = map[string]any{"seq": s.Summary(), "lossless": c.Lossless, "mixed": c.Mixed, "q": c.Quality, "file_frames": len(rf.Frames), "lossy_frames": lossyFrames}
	if anyTransp && lossyFrames > 0 {
		o.NonTrivial("l%v m%v|%s|ly%v ll%v|sub%v|n%d", c.Lossless, c.Mixed, s.Alpha, lossyFrames > 0, llFrames > 0, sub, len(s.Frames))
	}
	// compare as step functions of presentation time
	if len(pb.Canvases) == 1 && !rf.Animated {
		// a single picture stored as a still: it carries no timing; all inputs must be that picture's alpha
		for i, e := range exp {
			if at := alphaDiff(e.Pix, pb.Canvases[0].Pix); at >= 0 {
				return fmt.Errorf("still output: input %d alpha at pixel %d is %d, played back %d", i, at, e.Pix[at*4+3], pb.Canvases[0].Pix[at*4+3])
			}
		}
		return nil
	}
	var pbStart []time.Duration
	var t0 time.Duration
	for _, d := range pb.Durations {
		pbStart = append(pbStart, t0)
		t0 += d
	}
	totalPB := t0
	var t time.Duration
	for i, e := range exp {
		d := time.Duration(durs[i]) * time.Millisecond
		lo, hi := t, t+d // [lo,hi)
		for k := range pb.Canvases {
			ks, ke := pbStart[k], pbStart[k]+pb.Durations[k]
			if ke <= lo || ks >= hi || ke == ks {
				continue // no overlap (zero-length playback frames are never on screen)
			}
			if at := alphaDiff(e.Pix, pb.Canvases[k].Pix); at >= 0 {
				return fmt.Errorf("input frame %d (on screen %v..%v): alpha at (%d,%d) is %d, played-back frame %d (%v..%v) has %d [lossless=%v mixed=%v, %d lossy / %d lossless frames in file]",
					i, lo, hi, at%s.CW, at/s.CW, e.Pix[at*4+3], k, ks, ke, pb.Canvases[k].Pix[at*4+3], c.Lossless, c.Mixed, lossyFrames, llFrames)
			}
		}
		t += d
	}
	if totalPB != t {
		return fmt.Errorf("total duration %v, want %v", totalPB, t)
	}
	return nil
}

func alphaDiff(a, b []byte) int {
	if len(a) != len(b) {
		return 0
	}
	for i := 3; i < len(a); i += 4 {
		if a[i] != b[i] {
			return i / 4
		}
	}
	return -1
}

func TestC18(t *testing.T) { core.Run(t, "C18", genC18, checkC18) }
