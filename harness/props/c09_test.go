package props

import (
	"crypto/sha256"
	"fmt"
	"image"
	"image/color"
	"os"
	"strconv"
	"testing"
	"time"

	"github.com/deepteams/webp/animation"
	"github.com/deepteams/webp/verifharness/core"
	"github.com/deepteams/webp/verifharness/gen"
	"github.com/deepteams/webp/verifharness/ref/compositor"
	"pgregory.net/rapid"
)

// C09: animation playback implements the container's compositing rules.

type c09Frame struct {
	X, Y, W, H int
	Pix        []byte // NRGBA W*H*4
	BlendNone  bool
	DisposeBG  bool
	HasAlpha   bool
	DurMS      int
	Generic    bool // supply the frame through a non-NRGBA image type
}

type c09Case struct {
	CW, CH int
	Frames []c09Frame
	BG     [4]byte // Animation.BackgroundColor: documented as never painted by playback (disposal clears to transparent)
}

func genC09(t *rapid.T) *c09Case {
	c := &c09Case{}
	maxC := 12
	if tierThorough() {
		maxC = 32
	}
	c.CW = rapid.IntRange(1, maxC).Draw(t, "cw")
	c.CH = rapid.IntRange(1, maxC).Draw(t, "ch")
	c.BG = rapid.SampledFrom([][4]byte{{}, {}, {255, 255, 255, 255}, {9, 8, 7, 255}, {10, 200, 30, 128}, {1, 2, 3, 0}}).Draw(t, "bg")
	n := rapid.IntRange(1, 9).Draw(t, "nFrames")
	for i := 0; i < n; i++ {
		f := c09Frame{}
		switch rapid.IntRange(0, 3).Draw(t, "rectClass") {
		case 0: // full canvas
			f.W, f.H = c.CW, c.CH
		case 1: // inside
			f.X = rapid.IntRange(0, c.CW-1).Draw(t, "x")
			f.Y = rapid.IntRange(0, c.CH-1).Draw(t, "y")
			f.W = rapid.IntRange(1, c.CW-f.X).Draw(t, "w")
			f.H = rapid.IntRange(1, c.CH-f.Y).Draw(t, "h")
		default: // may overhang the right/bottom edge
			f.X = rapid.IntRange(0, c.CW).Draw(t, "x")
			f.Y = rapid.IntRange(0, c.CH).Draw(t, "y")
			f.W = rapid.IntRange(1, c.CW+3).Draw(t, "w")
			f.H = rapid.IntRange(1, c.CH+3).Draw(t, "h")
		}
		f.BlendNone = rapid.Bool().Draw(t, "blendNone")
		f.DisposeBG = rapid.Bool().Draw(t, "disposeBG")
		f.DurMS = rapid.IntRange(0, 100).Draw(t, "dur")
		f.Generic = rapid.IntRange(0, 5).Draw(t, "generic") == 0
		cls := rapid.SampledFrom([]string{"opaque", "semi", "transparent", "mixed", "mixed", "edge"}).Draw(t, "content")
		r := gen.NewRng(rapid.Uint64().Draw(t, "pixSeed"))
		f.Pix = make([]byte, f.W*f.H*4)
		anyNonOpaque := false
		for p := 0; p < f.W*f.H; p++ {
			a := byte(255)
			switch cls {
			case "semi":
				a = byte(1 + r.Intn(254))
			case "transparent":
				a = 0
			case "mixed":
				a = []byte{0, 255, byte(r.Intn(256)), 128}[r.Intn(4)]
			case "edge":
				a = []byte{0, 1, 2, 127, 128, 254, 255}[r.Intn(7)]
			}
			f.Pix[p*4], f.Pix[p*4+1], f.Pix[p*4+2], f.Pix[p*4+3] = r.Byte(), r.Byte(), r.Byte(), a
			if cls == "edge" {
				f.Pix[p*4] = []byte{0, 1, 254, 255}[r.Intn(4)]
			}
			if a != 255 {
				anyNonOpaque = true
			}
		}
		// the flag may overstate but never understate
		f.HasAlpha = anyNonOpaque || rapid.Bool().Draw(t, "hasAlphaOver")
		c.Frames = append(c.Frames, f)
	}
	return c
}

func (f *c09Frame) image() image.Image {
	n := &image.NRGBA{Pix: append([]byte(nil), f.Pix...), Stride: f.W * 4, Rect: image.Rect(0, 0, f.W, f.H)}
	if !f.Generic {
		return n
	}
	p := make([]color.NRGBA, f.W*f.H)
	for i := range p {
		p[i] = color.NRGBA{f.Pix[i*4], f.Pix[i*4+1], f.Pix[i*4+2], f.Pix[i*4+3]}
	}
	return &gen.Generic{R: image.Rect(0, 0, f.W, f.H), P: p}
}

func buildAnimation(c *c09Case) (*animation.Animation, []compositor.Frame) {
	an := &animation.Animation{CanvasWidth: c.CW, CanvasHeight: c.CH, BackgroundColor: color.NRGBA{R: c.BG[0], G: c.BG[1], B: c.BG[2], A: c.BG[3]}}
	var mf []compositor.Frame
	for i := range c.Frames {
		f := &c.Frames[i]
		fr := animation.Frame{Image: f.image(), Duration: time.Duration(f.DurMS) * time.Millisecond, OffsetX: f.X, OffsetY: f.Y, HasAlpha: f.HasAlpha}
		if f.BlendNone {
			fr.Blend = animation.BlendNone
		} else {
			fr.Blend = animation.BlendAlpha
		}
		if f.DisposeBG {
			fr.Dispose = animation.DisposeBackground
		}
		an.Frames = append(an.Frames, fr)
		px := make([]color.NRGBA, f.W*f.H)
		for p := range px {
			px[p] = color.NRGBA{f.Pix[p*4], f.Pix[p*4+1], f.Pix[p*4+2], f.Pix[p*4+3]}
		}
		mf = append(mf, compositor.Frame{X: f.X, Y: f.Y, W: f.W, H: f.H, Pix: px, Blend: !f.BlendNone, DisposeBG: f.DisposeBG})
	}
	return an, mf
}

func compareCanvas(got *image.NRGBA, want []compositor.Pixel, cw, ch int) error {
	if got == nil || got.Rect.Dx() != cw || got.Rect.Dy() != ch {
		return fmt.Errorf("canvas bounds %v, want %dx%d", got.Rect, cw, ch)
	}
	for y := 0; y < ch; y++ {
		for x := 0; x < cw; x++ {
			g := got.NRGBAAt(x, y)
			if !want[y*cw+x].Match(g) {
				return fmt.Errorf("pixel (%d,%d): got %s, container rules give %s", x, y, pixStr(g), pixStr(want[y*cw+x].V))
			}
		}
	}
	return nil
}

func checkC09(c *c09Case, o *core.Obs) error {
	an, mf := buildAnimation(c)
	want := compositor.Play(c.CW, c.CH, mf)
	dec, err := animation.NewAnimDecoder(an)
	if err != nil {
		return fmt.Errorf("NewAnimDecoder: %v", err)
	}
	var snaps []*image.NRGBA
	var hashes [][32]byte
	for i := range c.Frames {
		if !dec.HasNext() {
			return fmt.Errorf("HasNext false before frame %d of %d", i, len(c.Frames))
		}
		s, d, err := dec.NextFrame()
		if err != nil {
			return fmt.Errorf("NextFrame %d: %v", i, err)
		}
		if d != time.Duration(c.Frames[i].DurMS)*time.Millisecond {
			return fmt.Errorf("frame %d duration %v", i, d)
		}
		if err := compareCanvas(s, want[i], c.CW, c.CH); err != nil {
			return fmt.Errorf("frame %d: %v", i, err)
		}
		if cv := dec.Canvas(); cv == nil || string(cv.Pix) != string(s.Pix) {
			return fmt.Errorf("frame %d: Canvas() differs from the snapshot just returned", i)
		}
		snaps = append(snaps, s)
		hashes = append(hashes, sha256.Sum256(s.Pix))
		// snapshots already returned are not modified by later calls
		for k := range snaps {
			if sha256.Sum256(snaps[k].Pix) != hashes[k] {
				return fmt.Errorf("snapshot %d was modified by NextFrame call %d", k, i)
			}
		}
	}
	if dec.HasNext() {
		return fmt.Errorf("HasNext true after the last frame")
	}
	if _, _, err := dec.NextFrame(); err == nil {
		return fmt.Errorf("NextFrame after the end returned no error")
	}
	// Reset replays identically
	dec.Reset()
	for i := range c.Frames {
		s, _, err := dec.NextFrame()
		if err != nil {
			return fmt.Errorf("after Reset, NextFrame %d: %v", i, err)
		}
		if string(s.Pix) != string(snaps[i].Pix) {
			return fmt.Errorf("after Reset, frame %d differs from the first playback", i)
		}
	}
	for k := range snaps {
		if sha256.Sum256(snaps[k].Pix) != hashes[k] {
			return fmt.Errorf("snapshot %d was modified by Reset/replay", k)
		}
	}
	// evidence
	hist := ""
	nontriv := false
	for i, f := range c.Frames {
		full := f.X == 0 && f.Y == 0 && f.W == c.CW && f.H == c.CH
		hist += fmt.Sprintf("%v%v%v%v;", b2i(full), b2i(f.BlendNone), b2i(f.DisposeBG), b2i(f.HasAlpha))
		if i > 0 && c.Frames[i-1].DisposeBG && !f.BlendNone {
			nontriv = true
		}
		if i > 0 && full && (!f.HasAlpha || f.BlendNone) {
			nontriv = true // a frame the decoder's key-frame shortcut accepts at index > 0
		}
	}
	o.Labelf("frames=%d", len(c.Frames))
	o.SampleJSON = map[string]any{"canvas": fmt.Sprintf("%dx%d", c.CW, c.CH), "history(full,noblend,dispose,hasalpha)": hist}
	if nontriv {
		o.NonTrivial("%s", hist)
	}
	return nil
}

func TestC09(t *testing.T) { core.Run(t, "C09", genC09, checkC09) }

// TestC09Exhaustive enumerates every frame list up to a bounded length over a small alphabet on a
// 2x2 canvas (bounded-exhaustive part of C09). Sharded by VERIF_SHARD/VERIF_SHARDS.
func TestC09Exhaustive(t *testing.T) {
	if os.Getenv("VERIF_REPLAY") != "" {
		t.Skip("enumeration has no replay mode; failing lists are saved as ordinary C09 cases")
	}
	shard, _ := strconv.Atoi(os.Getenv("VERIF_SHARD"))
	shards, _ := strconv.Atoi(os.Getenv("VERIF_SHARDS"))
	if shards <= 0 {
		shards = 1
	}
	maxLen := 3
	if tierThorough() {
		maxLen = 4
	}
	type rect struct{ x, y, w, h int }
	rects := []rect{{0, 0, 2, 2}, {0, 0, 1, 2}, {1, 0, 1, 1}, {1, 1, 2, 2}}
	contents := [][4]byte{{255, 255, 255, 255}, {128, 128, 128, 128}, {0, 0, 0, 0}, {255, 0, 128, 255}} // alpha per pixel (up to 4 px)
	var alphabet []c09Frame
	for _, r := range rects {
		for _, bn := range []bool{false, true} {
			for _, dp := range []bool{false, true} {
				for ci, ct := range contents {
					pix := make([]byte, r.w*r.h*4)
					nonOpaque := false
					for p := 0; p < r.w*r.h; p++ {
						a := ct[p%4]
						pix[p*4], pix[p*4+1], pix[p*4+2], pix[p*4+3] = byte(40*ci+10*p+7), byte(200-30*p), byte(13*ci+p), a
						if a != 255 {
							nonOpaque = true
						}
					}
					for _, ha := range []bool{false, true} {
						if nonOpaque && !ha {
							continue
						}
						alphabet = append(alphabet, c09Frame{X: r.x, Y: r.y, W: r.w, H: r.h, Pix: pix, BlendNone: bn, DisposeBG: dp, HasAlpha: ha, DurMS: 10})
					}
				}
			}
		}
	}
	A := len(alphabet)
	total := 0
	var rec func(prefix []int)
	lists := 0
	rec = func(prefix []int) {
		if len(prefix) > 0 {
			total++
			if len(prefix) == 1 || (prefix[0]+prefix[1]*7)%shards == shard {
				c := &c09Case{CW: 2, CH: 2}
				for _, k := range prefix {
					c.Frames = append(c.Frames, alphabet[k])
				}
				ob := &core.Obs{}
				if err := checkC09(c, ob); err != nil {
					core.RecordFail("C09", c, err.Error())
					t.Fatalf("list %v: %v", prefix, err)
				}
				lists++
				if lists%4096 == 1 {
					core.Merge("C09", ob)
				}
			}
		}
		if len(prefix) == maxLen {
			return
		}
		for k := 0; k < A; k++ {
			if len(prefix) == 1 && shards > 1 && (prefix[0]+k*7)%shards != shard {
				continue
			}
			rec(append(prefix, k))
		}
	}
	rec(nil)
	core.AddExtra("exhaustive_lists_checked", int64(lists))
	core.SetExtra("exhaustive_alphabet", A)
	core.SetExtra("exhaustive_max_len", maxLen)
}

// TestC09Blend sweeps the blend arithmetic through the public API: for each (src alpha, dst alpha)
// pair one 256x256 composite covers all 65536 (src channel, dst channel) combinations.
// quick: a sample of alpha pairs incl. all edge values; thorough: all 65536 pairs (2^32 combos).
func TestC09Blend(t *testing.T) {
	if os.Getenv("VERIF_REPLAY") != "" {
		t.Skip("sweep has no replay mode; a failing pixel is saved as an ordinary C09 case")
	}
	shard, _ := strconv.Atoi(os.Getenv("VERIF_SHARD"))
	shards, _ := strconv.Atoi(os.Getenv("VERIF_SHARDS"))
	if shards <= 0 {
		shards = 1
	}
	seed, _ := strconv.ParseUint(os.Getenv("VERIF_SEED_EFFECTIVE"), 10, 64)
	var pairs [][2]int
	if tierThorough() {
		for sa := 0; sa < 256; sa++ {
			for da := 0; da < 256; da++ {
				pairs = append(pairs, [2]int{sa, da})
			}
		}
	} else {
		edge := []int{0, 1, 2, 127, 128, 129, 254, 255}
		for _, sa := range edge {
			for _, da := range edge {
				pairs = append(pairs, [2]int{sa, da})
			}
		}
		r := gen.NewRng(seed + 99)
		for i := 0; i < 192; i++ {
			pairs = append(pairs, [2]int{r.Intn(256), r.Intn(256)})
		}
	}
	const N = 256
	dst := make([]byte, N*N*4)
	src := make([]byte, N*N*4)
	pairsDone := 0
	for pi, pr := range pairs {
		if pi%shards != shard {
			continue
		}
		sa, da := byte(pr[0]), byte(pr[1])
		for y := 0; y < N; y++ {
			for x := 0; x < N; x++ {
				o := (y*N + x) * 4
				dst[o], dst[o+1], dst[o+2], dst[o+3] = byte(y), byte(255-y), byte(y*7), da
				src[o], src[o+1], src[o+2], src[o+3] = byte(x), byte(255-x), byte(x*13), sa
			}
		}
		an := &animation.Animation{CanvasWidth: N, CanvasHeight: N, Frames: []animation.Frame{
			{Image: &image.NRGBA{Pix: dst, Stride: N * 4, Rect: image.Rect(0, 0, N, N)}, Blend: animation.BlendNone, HasAlpha: true},
			{Image: &image.NRGBA{Pix: src, Stride: N * 4, Rect: image.Rect(0, 0, N, N)}, Blend: animation.BlendAlpha, HasAlpha: true},
		}}
		dec, err := animation.NewAnimDecoder(an)
		if err != nil {
			t.Fatal(err)
		}
		dec.NextFrame()
		got, _, err := dec.NextFrame()
		if err != nil {
			t.Fatal(err)
		}
		for i := 0; i < N*N; i++ {
			s := color.NRGBA{src[i*4], src[i*4+1], src[i*4+2], sa}
			d := color.NRGBA{dst[i*4], dst[i*4+1], dst[i*4+2], da}
			g := color.NRGBA{got.Pix[i*4], got.Pix[i*4+1], got.Pix[i*4+2], got.Pix[i*4+3]}
			want := compositor.Play(1, 1, []compositor.Frame{{W: 1, H: 1, Pix: []color.NRGBA{d}}, {W: 1, H: 1, Pix: []color.NRGBA{s}, Blend: true}})[1][0]
			if !want.Match(g) {
				c := &c09Case{CW: 1, CH: 1, Frames: []c09Frame{{W: 1, H: 1, Pix: []byte{d.R, d.G, d.B, d.A}, BlendNone: true, HasAlpha: true}, {W: 1, H: 1, Pix: []byte{s.R, s.G, s.B, s.A}, HasAlpha: true}}}
				msg := fmt.Sprintf("blend of src %s over dst %s gives %s, specified arithmetic gives %s", pixStr(s), pixStr(d), pixStr(g), pixStr(want.V))
				core.RecordFail("C09", c, msg)
				t.Fatal(msg)
			}
		}
		pairsDone++
		ob := &core.Obs{SampleJSON: map[string]any{"blend_sweep_alpha_pair": pr, "pixels": N * N}}
		ob.NonTrivial("blendpair|%d|%d", sa, da)
		core.Merge("C09", ob)
	}
	core.AddExtra("blend_alpha_pairs_swept", int64(pairsDone))
	core.AddExtra("blend_pixel_composites", int64(pairsDone)*N*N)
}
