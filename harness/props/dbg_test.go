package props

import (
	"fmt"
	"os"
	"path/filepath"
	"strconv"
	"strings"
	"testing"

	"github.com/deepteams/webp/verifharness/gen"
	"github.com/deepteams/webp/verifharness/ref/vp8lstrict"
	"github.com/deepteams/webp/verifharness/ref/xref"
)

func TestDbgCorpus(t *testing.T) {
	files, _ := filepath.Glob(os.Getenv("FZ") + "/*")
	ok, truth := 0, 0
	reasons := map[string]int{}
	for _, f := range files {
		b, _ := os.ReadFile(f)
		s := string(b)
		i := strings.Index(s, "[]byte(")
		if i < 0 {
			continue
		}
		u, err := strconv.Unquote(s[i+7 : strings.LastIndex(s, ")")])
		if err != nil {
			continue
		}
		data := []byte(u)
		if err := vp8lstrict.Validate(data, gen.DistMapXY(), 1<<14); err != nil {
			reasons[err.Error()]++
			continue
		}
		ok++
		if len(data) >= 5 {
			bits := uint32(data[1]) | uint32(data[2])<<8 | uint32(data[3])<<16 | uint32(data[4])<<24
			w, h := int(bits&0x3fff)+1, int(bits>>14&0x3fff)+1
			d := diffStill(&stillParts{File: nil, Bitstream: data, Lossless: true, W: w, H: h, RawToWitness: true})
			if d.Truth {
				truth++
			} else {
				reasons["valid but: "+d.WitnessNote]++
				_, rerr := decodeBytes(xref.Simple("VP8L", data))
				fmt.Printf("VALID-BUT %s len=%d %dx%d note=%s repoErr=%v hex=%x\n", filepath.Base(f), len(data), w, h, d.WitnessNote, rerr, data)
			}
		}
	}
	fmt.Println("files", len(files), "strictly valid", ok, "truth established", truth)
	for k, v := range reasons {
		fmt.Println(" ", v, k)
	}
}
