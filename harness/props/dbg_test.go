package props

import (
	"fmt"
	"os"
	"strconv"
	"strings"
	"testing"

	"github.com/deepteams/webp/verifharness/ref/cref"
	"github.com/deepteams/webp/verifharness/ref/xref"
)

func readFuzzFile(p string) []byte {
	b, _ := os.ReadFile(p)
	s := string(b)
	i := strings.Index(s, "[]byte(")
	u, err := strconv.Unquote(s[i+7 : strings.LastIndex(s, ")")])
	if err != nil {
		panic(err)
	}
	return []byte(u)
}

func TestDbgFuzz(t *testing.T) {
	data := readFuzzFile(os.Getenv("FZ"))
	bits := uint32(data[1]) | uint32(data[2])<<8 | uint32(data[3])<<16 | uint32(data[4])<<24
	w, h := int(bits&0x3fff)+1, int(bits>>14&0x3fff)+1
	fmt.Println("len", len(data), "w,h", w, h, "alpha", bits>>28&1, "ver", bits>>29)
	p2, _, _, err := xref.DecodeVP8L(data)
	p1, _, _, ok := cref.DecodeRGBA(data)
	img, rerr := decodeBytes(xref.Simple("VP8L", data))
	fmt.Println("ximage", err, "libwebp", ok, "repo", rerr)
	if rerr == nil {
		r := toNRGBA(img)
		n := 0
		for i := range r {
			if r[i].R != p1[i*4] || r[i].G != p1[i*4+1] || r[i].B != p1[i*4+2] || r[i].A != p1[i*4+3] {
				if n < 5 {
					fmt.Println("px", i, "repo", r[i], "lib", p1[i*4:i*4+4], "x", p2[i*4:i*4+4])
				}
				n++
			}
		}
		fmt.Println("diffs", n, "of", len(r))
	}
}
