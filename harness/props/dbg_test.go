package props

import (
	"fmt"
	"os"
	"strconv"
	"strings"
	"testing"

	"github.com/deepteams/webp/verifharness/ref/cref"
	"github.com/deepteams/webp/verifharness/ref/xref"
)

func readFuzzFile(p string) []byte {
	b, _ := os.ReadFile(p)
	s := string(b)
	i := strings.Index(s, "[]byte(")
	q := s[i+7 : strings.LastIndex(s, ")")]
	u, err := strconv.Unquote(q)
	if err != nil {
		panic(err)
	}
	return []byte(u)
}

func TestDbgFuzz(t *testing.T) {
	data := readFuzzFile(os.Getenv("FZ"))
	fmt.Println("len", len(data), "part0", int(data[0])>>5|int(data[1])<<3|int(data[2])<<11)
	file := xref.Simple("VP8 ", data)
	_, ok := cref.DecodeYUV(data)
	_, okf := cref.DecodeYUV(file)
	fmt.Println("libwebp-with-riff", okf)
	_, err := xref.DecodeVP8(data)
	_, rerr := decodeBytes(file)
	fmt.Println("libwebp", ok, "ximage", err, "repo", rerr)
}
