package props

import (
	"fmt"
	"sort"
	"testing"

	"github.com/deepteams/webp/verifharness/core"
	"github.com/deepteams/webp/verifharness/gen"
	"github.com/deepteams/webp/verifharness/ref/cref"
	"github.com/deepteams/webp/verifharness/ref/riffwalk"
	"github.com/deepteams/webp/verifharness/ref/vp8lstrict"
	"github.com/deepteams/webp/verifharness/ref/xref"
	"pgregory.net/rapid"
)

// C03: VP8L decoding returns the pixels the format defines for every valid stream.

type c03Case struct {
	Source string // gen | libwebp
	Prog   *gen.VP8LProg
	Img    *gen.Img
}

func genC03(t *rapid.T) *c03Case {
	c := &c03Case{Source: rapid.SampledFrom([]string{"gen", "gen", "gen", "gen", "libwebp"}).Draw(t, "source")}
	max := 40
	if tierThorough() {
		max = 96
	}
	if c.Source == "gen" {
		c.Prog = gen.DrawVP8L(t, max)
		for i := range c.Prog.Transforms {
			c.Prog.Transforms[i].Mode1415 = false // modes 14/15 are not defined by the specification (C05 still feeds them)
		}
		bigEvery := 120
		if tierThorough() {
			bigEvery = 50
		}
		if rapid.IntRange(0, bigEvery-1).Draw(t, "big") == 0 {
			// above the decoder's 100,000-pixel threshold for its parallel inverse transforms; ordinary
			// and extreme shapes (a picture shorter than one transform tile, or narrower)
			switch rapid.IntRange(0, 3).Draw(t, "bigShape") {
			case 0:
				c.Prog.W = rapid.IntRange(1200, 16384).Draw(t, "bigWideW")
				c.Prog.H = 100000/c.Prog.W + rapid.IntRange(1, 3).Draw(t, "bigWideH")
			case 1:
				c.Prog.H = rapid.IntRange(1200, 16384).Draw(t, "bigTallH")
				c.Prog.W = 100000/c.Prog.H + rapid.IntRange(1, 3).Draw(t, "bigTallW")
			default:
				c.Prog.W = rapid.IntRange(320, 400).Draw(t, "bigW")
				c.Prog.H = rapid.IntRange(100000/c.Prog.W+1, 100000/c.Prog.W+40).Draw(t, "bigH")
			}
		} else if rapid.IntRange(0, 79).Draw(t, "thin") == 0 {
			// the format's largest dimensions (14 bits + 1) on one side
			long := rapid.SampledFrom([]int{16384, 16384, 16383, 8193, 4097, 2049}).Draw(t, "thinLong")
			short := rapid.IntRange(1, 3).Draw(t, "thinShort")
			if rapid.Bool().Draw(t, "thinTall") {
				c.Prog.W, c.Prog.H = short, long
			} else {
				c.Prog.W, c.Prog.H = long, short
			}
		}
	} else {
		c.Img = gen.DrawImg(t, gen.ImgCfg{MaxSide: max + 20, BigChance: 3, BigSide: 200, LargePermille: 8, ThinPermille: 8, Kinds: []string{"nrgba"}, Places: []string{"tight"}})
	}
	return c
}

func checkC03(c *c03Case, o *core.Obs) error {
	var parts *stillParts
	sig := ""
	switch c.Source {
	case "gen":
		bs, stat := c.Prog.Build()
		if err := vp8lstrict.Validate(bs, gen.DistMapXY(), 1<<24); err != nil {
			// the generator and the strict validator are two independent readings of the syntax
			o.Inconclusive("generator/validator disagreement: %v", err)
			return nil
		}
		parts = &stillParts{File: xref.Simple("VP8L", bs), Bitstream: bs, Lossless: true, W: c.Prog.W, H: c.Prog.H, RawToWitness: true}
		p := c.Prog
		tr := ""
		for _, t := range p.Transforms {
			tr += fmt.Sprint(t.Type)
			if t.Type == 3 {
				tr += fmt.Sprintf("(%d)", palClass(t.NPal))
			}
			if t.Type < 2 {
				tr += fmt.Sprintf("[%d]", t.Bits)
			}
		}
		var feats []string
		for k := range stat {
			feats = append(feats, k)
		}
		sort.Strings(feats)
		sig = fmt.Sprintf("gen|t%s|c%d|m%d g%d|%s|%v", tr, p.CacheBits, p.MetaBits, p.Groups, p.CodeStyle, feats)
		o.SampleJSON = map[string]any{"source": "gen", "prog": p.Summary(), "stream_bytes": len(bs), "features": stat}
		o.Labelf("transforms=%d", len(p.Transforms))
		o.Labelf("pixels>=100000=%v", p.W*p.H >= 100000)
		if p.W == 16384 || p.H == 16384 {
			o.Label("side=16384")
		}
		for _, f := range feats {
			o.Label("feature=" + f)
		}
		o.Labelf("cache=%v meta=%v", p.CacheBits > 0, p.MetaBits > 0)
		if len(p.Transforms) == 0 && stat["backref"] == 0 && stat["cachehit"] == 0 && p.Groups <= 1 {
			sig = "" // trivial stream
		}
	default:
		if !cref.Available() {
			o.Inconclusive("libwebp unavailable")
			return nil
		}
		file := cref.EncodeLosslessRGBA(c.Img.Pix, c.Img.W, c.Img.H)
		rf, err := riffwalk.Parse(file)
		if err != nil || len(rf.Frames) != 1 {
			o.Inconclusive("libwebp's lossless file not parsed: %v", err)
			return nil
		}
		parts = &stillParts{File: file, Bitstream: rf.Frames[0].Bitstream, Lossless: true, W: c.Img.W, H: c.Img.H}
		sig = fmt.Sprintf("libwebp|%s|%s|%s", c.Img.ColorClass(), c.Img.Alpha, c.Img.SizeClass())
		o.SampleJSON = map[string]any{"source": "libwebp", "img": c.Img.Summary(), "bytes": len(file)}
	}
	o.Label("source=" + c.Source)
	d := diffStill(parts)
	if !d.Truth {
		if d.WitnessAccept == 0 {
			o.Inconclusive("all witnesses reject the generated stream (generator): %s", d.WitnessNote)
		} else {
			o.Inconclusive("witnesses disagree: %s", d.WitnessNote)
		}
		return nil
	}
	if sig != "" {
		o.NonTrivial("%s", sig)
	}
	if d.RepoErr != nil {
		return fmt.Errorf("package rejects a VP8L stream that %d independent decoders accept and agree on: %v", d.WitnessAccept, d.RepoErr)
	}
	if d.Mismatch != "" {
		return fmt.Errorf("%s: %s", c.Source, d.Mismatch)
	}
	// when the source picture is known (libwebp encoded it), the decode must also equal it
	if c.Source == "libwebp" {
		got := toNRGBA(d.RepoImg)
		for i, p := range got {
			s := c.Img.Pix[i*4 : i*4+4]
			if p.A == 0 && s[3] == 0 {
				continue
			}
			if p.R != s[0] || p.G != s[1] || p.B != s[2] || p.A != s[3] {
				return fmt.Errorf("libwebp-encoded picture: pixel %d decodes to %s, source (%d,%d,%d,%d)", i, pixStr(p), s[0], s[1], s[2], s[3])
			}
		}
	}
	return nil
}

func palClass(n int) int {
	switch {
	case n <= 2:
		return 2
	case n <= 4:
		return 4
	case n <= 16:
		return 16
	}
	return 256
}

func TestC03(t *testing.T) { core.Run(t, "C03", genC03, checkC03) }

// TestVP8LGenDistMap cross-checks the generator's distance-code table against the independent
// copy in x/image/vp8l through behaviour: every plane code is used once in a tiny stream and the
// witnesses must agree (covered by C03 itself); here only the table's shape is checked.
func TestVP8LGenDistMap(t *testing.T) {
	m := gen.DistMapXY()
	seen := map[[2]int]bool{}
	for _, e := range m {
		if seen[e] || e[1] < 0 || e[1] > 7 || e[0] < -7 || e[0] > 8 {
			t.Fatalf("bad entry %v", e)
		}
		seen[e] = true
	}
}
