package props

import (
	"image/color"
	"bytes"
	"encoding/binary"
	"fmt"
	"image"
	"testing"

	"github.com/deepteams/webp"
	"github.com/deepteams/webp/animation"
	"github.com/deepteams/webp/mux"
	"github.com/deepteams/webp/verifharness/core"
	"github.com/deepteams/webp/verifharness/gen"
	"pgregory.net/rapid"
)

// C16: header queries agree with what a full decode returns.

type c16Case struct {
	Source  string // encode | animenc | riffgen-still | riffgen-anim
	File    []byte
	Desc    string
	Package bool // written by this package (alpha-flag claim applies)
}

func riffChunk(id string, data []byte, pad bool) []byte {
	b := make([]byte, 8, 8+len(data)+1)
	copy(b, id)
	binary.LittleEndian.PutUint32(b[4:], uint32(len(data)))
	b = append(b, data...)
	if len(data)&1 == 1 && pad {
		b = append(b, 0)
	}
	return b
}

func riffFile(chunks ...[]byte) []byte {
	body := []byte("WEBP")
	for _, c := range chunks {
		body = append(body, c...)
	}
	out := make([]byte, 8, 8+len(body))
	copy(out, "RIFF")
	binary.LittleEndian.PutUint32(out[4:], uint32(len(body)))
	return append(out, body...)
}

func vp8xPayload(flags byte, w, h int) []byte {
	x := make([]byte, 10)
	x[0] = flags
	x[4], x[5], x[6] = byte(w-1), byte((w-1)>>8), byte((w-1)>>16)
	x[7], x[8], x[9] = byte(h-1), byte((h-1)>>8), byte((h-1)>>16)
	return x
}

func genC16(t *rapid.T) *c16Case {
	c := &c16Case{Source: rapid.SampledFrom([]string{"encode", "animenc", "muxer", "riffgen-still", "riffgen-still", "riffgen-anim"}).Draw(t, "source")}
	pool := bitstreamPool()
	// Real files carry colour profiles and maker notes of kilobytes to megabytes in front of the image data; a reader
	// that looks at a bounded window of the file meets the image chunk late or not at all. One case in six gets a large
	// front chunk, with lengths around the window sizes an implementation might pick (4 KiB .. 1 MiB).
	bigFront := rapid.IntRange(0, 5).Draw(t, "bigFront") == 0
	bigLen := func(label string) int {
		base := rapid.SampledFrom([]int{1 << 12, 1 << 13, 1 << 15, 1 << 16, 1 << 16, 1 << 17, 1 << 18, 1 << 20}).Draw(t, label+"Base")
		return base + rapid.IntRange(-40, 40).Draw(t, label+"Delta")
	}
	blob := func(prefix string, n int) []byte {
		b := make([]byte, n)
		copy(b, prefix)
		for i := len(prefix); i < n; i++ {
			b[i] = byte(i*7 + i>>8)
		}
		return b
	}
	drawUnknown := func() []byte {
		n := rapid.IntRange(0, 9).Draw(t, "unkLen")
		if bigFront && rapid.Bool().Draw(t, "unkBig") {
			n = bigLen("unk")
		}
		id := rapid.SampledFrom([]string{"JUNK", "abcd", "VP8Y", "EXIG"}).Draw(t, "unkID")
		return riffChunk(id, bytes.Repeat([]byte{0x41}, n), true)
	}
	switch c.Source {
	case "encode":
		im := gen.DrawImg(t, gen.ImgCfg{MaxSide: 32})
		var o *gen.Opts
		if rapid.Bool().Draw(t, "lossless") {
			o = gen.DrawLosslessOpts(t)
		} else {
			o = gen.DrawLossyOpts(t, false)
		}
		if rapid.Bool().Draw(t, "meta") {
			o.DrawMeta(t, 20)
		}
		b, err := encodeImg(im.Build(), o)
		if err != nil {
			t.Fatalf("encode: %v", err)
		}
		c.File, c.Package = b, true
		c.Desc = fmt.Sprintf("%v %v", im.Summary(), o.Summary())
	case "animenc":
		s := gen.DrawAnimSeq(t, 16, 5, 1, []string{"opaque", "binary", "levels", "semi-flat"})
		imgs, durs := seqImages(s)
		eo := &animation.EncodeOptions{Lossless: rapid.Bool().Draw(t, "lossless"), AllowMixed: rapid.Bool().Draw(t, "mixed"), Quality: 70, Kmin: s.Kmin, Kmax: s.Kmax, LoopCount: s.Loop, BackgroundColor: color.NRGBA{R: s.BG[0], G: s.BG[1], B: s.BG[2], A: s.BG[3]}}
		b, err := animEncode(s.CW, s.CH, imgs, durs, eo, nil, nil, nil, false)
		if err != nil {
			t.Fatalf("animEncode: %v", err)
		}
		c.File, c.Package = b, true
		c.Desc = fmt.Sprint(s.Summary())
	case "muxer":
		// a Muxer history (C14's generator); kept when it assembles to a file inside C16's domain
		mc := genC14(t)
		data, still, ok := assembleC14(mc)
		if !ok {
			t.Skip("muxer history rejected or outside the domain")
		}
		c.File, c.Package = data, true
		c.Desc = fmt.Sprintf("muxer ops=%d still=%v", len(mc.Ops), still)
	case "riffgen-still":
		e := pool[rapid.IntRange(0, len(pool)-1).Draw(t, "bs")]
		lossless := e.Bitstream[0] == 0x2f
		var chunks [][]byte
		flags := byte(0)
		alphMode := rapid.SampledFrom([]string{"as-is", "as-is", "none", "empty", "opaque"}).Draw(t, "alphMode")
		hasAlph := e.Alph != nil && alphMode == "as-is"
		emptyAlph := !lossless && alphMode == "empty"
		var opaqueAlph []byte
		if !lossless && alphMode == "opaque" {
			// a real, decodable ALPH chunk whose plane is 255 everywhere (raw, filter 0..3)
			f := rapid.IntRange(0, 3).Draw(t, "opaqueAlphFilter")
			opaqueAlph = make([]byte, 1+e.W*e.H)
			opaqueAlph[0] = byte(f << 2)
			for i := 1; i < len(opaqueAlph); i++ {
				opaqueAlph[i] = 255
			}
			if f != 0 {
				// residuals of a constant 255 plane under any predictive filter: first sample 255, rest 0
				for i := 2; i < len(opaqueAlph); i++ {
					opaqueAlph[i] = 0
				}
			}
			flags |= 0x10
		}
		if hasAlph || emptyAlph {
			flags |= 0x10
		}
		icc := rapid.Bool().Draw(t, "icc")
		exif := rapid.Bool().Draw(t, "exif")
		xmp := rapid.Bool().Draw(t, "xmp")
		if icc {
			flags |= 0x20
		}
		if exif {
			flags |= 0x08
		}
		if xmp {
			flags |= 0x04
		}
		// flags may over- or under-state the optional chunks
		flip := rapid.SampledFrom([]byte{0, 0, 0, 0x10, 0x20, 0x08, 0x04}).Draw(t, "flagFlip")
		flags ^= flip
		chunks = append(chunks, riffChunk("VP8X", vp8xPayload(flags, e.W, e.H), true))
		if icc {
			if bigFront && rapid.Bool().Draw(t, "iccBig") {
				chunks = append(chunks, riffChunk("ICCP", blob("icc-profile", bigLen("icc")), true))
			} else {
				chunks = append(chunks, riffChunk("ICCP", []byte("icc-profile"), true))
			}
		}
		if rapid.Bool().Draw(t, "unk1") {
			chunks = append(chunks, drawUnknown())
		}
		metaFirst := rapid.IntRange(0, 4).Draw(t, "metaBeforeImage") == 0
		if bigFront && exif && rapid.Bool().Draw(t, "exifFirstBig") {
			metaFirst = true
		}
		if metaFirst && exif {
			if bigFront {
				chunks = append(chunks, riffChunk("EXIF", blob("exif!", bigLen("exif")), true))
			} else {
				chunks = append(chunks, riffChunk("EXIF", []byte("exif!"), true))
			}
		}
		if hasAlph {
			chunks = append(chunks, riffChunk("ALPH", e.Alph, true))
		} else if emptyAlph {
			chunks = append(chunks, riffChunk("ALPH", nil, true))
		} else if opaqueAlph != nil {
			chunks = append(chunks, riffChunk("ALPH", opaqueAlph, true))
		}
		id := "VP8 "
		if lossless {
			id = "VP8L"
		}
		chunks = append(chunks, riffChunk(id, e.Bitstream, true))
		if !metaFirst && exif {
			chunks = append(chunks, riffChunk("EXIF", []byte("exif!"), true))
		}
		if xmp {
			chunks = append(chunks, riffChunk("XMP ", []byte("<xmp/>"), true))
		}
		if rapid.Bool().Draw(t, "unk2") {
			chunks = append(chunks, drawUnknown())
		}
		c.File = riffFile(chunks...)
		c.Desc = fmt.Sprintf("still %dx%d lossless=%v alph=%s flags=%#x flip=%#x metaFirst=%v bigFront=%v len=%d", e.W, e.H, lossless, alphMode, flags, flip, metaFirst, bigFront, len(c.File))
	default: // riffgen-anim
		n := rapid.IntRange(1, 5).Draw(t, "nFrames")
		// rare: long animations around the container's chunk/frame limits (1000 chunks, 10000 frames);
		// the frames beyond the fifth repeat one small bitstream so the case stays cheap to draw
		long := 0
		if rapid.IntRange(0, 24).Draw(t, "longAnim") == 7 {
			long = rapid.SampledFrom([]int{250, 990, 996, 997, 998, 999, 1000, 1001, 1002, 1500, 4000, 9999, 10000}).Draw(t, "longN")
		}
		cw, ch := 48, 40
		flags := byte(0x02)
		var frames [][]byte
		anyAlpha := false
		for i := 0; i < n; i++ {
			e := pool[rapid.IntRange(0, len(pool)-1).Draw(t, "bs")]
			x := 2 * rapid.IntRange(0, (cw-e.W)/2).Draw(t, "x")
			y := 2 * rapid.IntRange(0, (ch-e.H)/2).Draw(t, "y")
			h := make([]byte, 16)
			h[0], h[1], h[2] = byte(x/2), byte(x/2>>8), 0
			h[3], h[4], h[5] = byte(y/2), byte(y/2>>8), 0
			h[6], h[9] = byte(e.W-1), byte(e.H-1)
			d := rapid.IntRange(0, 300).Draw(t, "dur")
			h[12], h[13], h[14] = byte(d), byte(d>>8), byte(d>>16)
			h[15] = byte(rapid.IntRange(0, 3).Draw(t, "flags"))
			p := h
			if rapid.IntRange(0, 5).Draw(t, "subUnk") == 0 {
				p = append(p, drawUnknown()...)
			}
			if e.Alph != nil {
				p = append(p, riffChunk("ALPH", e.Alph, true)...)
				anyAlpha = true
			}
			id := "VP8 "
			if e.Bitstream[0] == 0x2f {
				id = "VP8L"
				if (binary.LittleEndian.Uint32(e.Bitstream[1:5])>>28)&1 == 1 {
					anyAlpha = true
				}
			}
			p = append(p, riffChunk(id, e.Bitstream, true)...)
			frames = append(frames, riffChunk("ANMF", p, true))
		}
		if long > n {
			e := pool[0]
			for _, q := range pool {
				if q.Alph == nil && len(q.Bitstream) < len(e.Bitstream) || e.Alph != nil {
					e = q
				}
			}
			h := make([]byte, 16)
			h[6], h[9], h[12] = byte(e.W-1), byte(e.H-1), 10
			id := "VP8 "
			if e.Bitstream[0] == 0x2f {
				id = "VP8L"
				if (binary.LittleEndian.Uint32(e.Bitstream[1:5])>>28)&1 == 1 {
					anyAlpha = true
				}
			}
			one := riffChunk("ANMF", append(h, riffChunk(id, e.Bitstream, true)...), true)
			for len(frames) < long {
				frames = append(frames, one)
			}
			n = long
		}
		if anyAlpha {
			flags |= 0x10
		}
		loop := rapid.SampledFrom([]int{0, 1, 5, 65535}).Draw(t, "loop")
		anim := make([]byte, 6)
		binary.LittleEndian.PutUint32(anim, rapid.Uint32().Draw(t, "bg"))
		binary.LittleEndian.PutUint16(anim[4:], uint16(loop))
		chunks := [][]byte{riffChunk("VP8X", vp8xPayload(flags, cw, ch), true)}
		if rapid.Bool().Draw(t, "unkA") {
			chunks = append(chunks, drawUnknown())
		}
		chunks = append(chunks, riffChunk("ANIM", anim, true))
		for i, f := range frames {
			chunks = append(chunks, f)
			if i == 0 && rapid.IntRange(0, 4).Draw(t, "unkBetween") == 0 {
				chunks = append(chunks, drawUnknown())
			}
		}
		c.File = riffFile(chunks...)
		c.Desc = fmt.Sprintf("anim %d frames loop %d", n, loop)
	}
	return c
}

func checkC16(c *c16Case, o *core.Obs) error {
	data := c.File
	feat, errF := webp.GetFeatures(bytes.NewReader(data))
	cfg, errC := webp.DecodeConfig(bytes.NewReader(data))
	dmx, errD := mux.NewDemuxer(data)
	an, errA := animation.DecodeBytes(data)
	img, errI := webp.Decode(bytes.NewReader(data))
	o.Label("source=" + c.Source)
	o.SampleJSON = map[string]any{"source": c.Source, "desc": c.Desc, "len": len(data)}
	isAnim := errF == nil && feat.HasAnimation
	if errF != nil || errC != nil || errD != nil || errA != nil {
		return fmt.Errorf("well-formed file (%s) rejected by a header view: GetFeatures=%v DecodeConfig=%v Demuxer=%v animation.DecodeBytes=%v [%s]", c.Source, errF, errC, errD, errA, c.Desc)
	}
	df := dmx.GetFeatures()
	// container-level agreement
	if feat.Width != cfg.Width || feat.Height != cfg.Height || feat.Width != df.Width || feat.Height != df.Height || feat.Width != an.CanvasWidth || feat.Height != an.CanvasHeight {
		return fmt.Errorf("canvas size disagreement: GetFeatures %dx%d DecodeConfig %dx%d Demuxer %dx%d animation %dx%d [%s]", feat.Width, feat.Height, cfg.Width, cfg.Height, df.Width, df.Height, an.CanvasWidth, an.CanvasHeight, c.Desc)
	}
	if feat.HasAnimation != df.HasAnimation {
		return fmt.Errorf("animation flag disagreement: GetFeatures %v Demuxer %v [%s]", feat.HasAnimation, df.HasAnimation, c.Desc)
	}
	if feat.FrameCount != dmx.NumFrames() || feat.FrameCount != len(an.Frames) {
		return fmt.Errorf("frame count disagreement: GetFeatures %d Demuxer %d animation %d [%s]", feat.FrameCount, dmx.NumFrames(), len(an.Frames), c.Desc)
	}
	if isAnim && (feat.LoopCount != dmx.LoopCount() || feat.LoopCount != an.LoopCount) {
		return fmt.Errorf("loop count disagreement: GetFeatures %d Demuxer %d animation %d [%s]", feat.LoopCount, dmx.LoopCount(), an.LoopCount, c.Desc)
	}
	o.Labelf("animated=%v", isAnim)
	o.NonTrivial("%s|%s|anim%v|%s", c.Source, feat.Format, isAnim, layoutOf(data))
	if isAnim {
		return nil
	}
	// still: full decode must agree with the header queries
	if errI != nil {
		// not accepted by Decode: outside the first sentence's domain
		o.Label("still-not-decodable")
		return nil
	}
	b := img.Bounds()
	if cfg.Width != b.Dx() || cfg.Height != b.Dy() || feat.Width != b.Dx() || feat.Height != b.Dy() {
		return fmt.Errorf("size: decoded %dx%d, DecodeConfig %dx%d, GetFeatures %dx%d [%s]", b.Dx(), b.Dy(), cfg.Width, cfg.Height, feat.Width, feat.Height, c.Desc)
	}
	if cfg.ColorModel != img.ColorModel() {
		return fmt.Errorf("colour model: DecodeConfig reports %T-model %p, Decode returned %T [%s]", cfg.ColorModel, cfg.ColorModel, img, c.Desc)
	}
	wantFormat := map[string]string{"VP8 ": "lossy", "VP8L": "lossless", "VP8X": "extended"}[string(data[12:16])]
	if feat.Format != wantFormat {
		return fmt.Errorf("format name %q, container starts with %q [%s]", feat.Format, string(data[12:16]), c.Desc)
	}
	if c.Package && !feat.HasAlpha {
		for _, p := range toNRGBA(img) {
			if p.A != 255 {
				return fmt.Errorf("package-written file: a decoded pixel has alpha %d but GetFeatures.HasAlpha is false [%s]", p.A, c.Desc)
			}
		}
	}
	img2, name, err := image.Decode(bytes.NewReader(data))
	if err != nil || name != "webp" {
		return fmt.Errorf("image.Decode: format %q err %v", name, err)
	}
	v1, v2 := viewOf(img, nil), viewOf(img2, nil)
	if v1.Type != v2.Type || !bytes.Equal(v1.Pix, v2.Pix) {
		return fmt.Errorf("image.Decode returns a different picture than webp.Decode")
	}
	cfg2, name2, err := image.DecodeConfig(bytes.NewReader(data))
	if err != nil || name2 != "webp" || cfg2.Width != cfg.Width || cfg2.Height != cfg.Height || cfg2.ColorModel != cfg.ColorModel {
		return fmt.Errorf("image.DecodeConfig: %q %v %+v vs %+v", name2, err, cfg2, cfg)
	}
	// the same file through readers that deliver the bytes differently (all legal io.Readers)
	rk := readerKinds[int(uint(len(data))*2654435761>>7)%len(readerKinds)]
	if len(data) <= 4096 || rk.Name != "onebyte" {
		cfgR, errR := webp.DecodeConfig(rk.New(data))
		if errR != nil || cfgR.Width != cfg.Width || cfgR.Height != cfg.Height || cfgR.ColorModel != cfg.ColorModel {
			return fmt.Errorf("DecodeConfig through a %s reader: %v %dx%d, through bytes.Reader %dx%d [%s]", rk.Name, errR, cfgR.Width, cfgR.Height, cfg.Width, cfg.Height, c.Desc)
		}
		featR, errR := webp.GetFeatures(rk.New(data))
		if errR != nil || *featR != *feat {
			return fmt.Errorf("GetFeatures through a %s reader: %v %+v, through bytes.Reader %+v [%s]", rk.Name, errR, featR, feat, c.Desc)
		}
		imgR, errR := webp.Decode(rk.New(data))
		if errR != nil {
			return fmt.Errorf("Decode through a %s reader fails: %v [%s]", rk.Name, errR, c.Desc)
		}
		if vr := viewOf(imgR, nil); vr.Type != v1.Type || !bytes.Equal(vr.Pix, v1.Pix) {
			return fmt.Errorf("Decode through a %s reader returns a different picture [%s]", rk.Name, c.Desc)
		}
		cfgI, nameI, errI := image.DecodeConfig(rk.New(data))
		if errI != nil || nameI != "webp" || cfgI.Width != cfg.Width || cfgI.Height != cfg.Height {
			return fmt.Errorf("image.DecodeConfig through a %s reader: %q %v %dx%d [%s]", rk.Name, nameI, errI, cfgI.Width, cfgI.Height, c.Desc)
		}
		o.Label("reader=" + rk.Name)
	}
	return nil
}

func layoutOf(data []byte) string {
	s := ""
	pos := 12
	for pos+8 <= len(data) && len(s) < 80 {
		id := string(data[pos : pos+4])
		sz := int(binary.LittleEndian.Uint32(data[pos+4:]))
		s += id[:3]
		if sz == 0 {
			s += "0"
		} else if sz&1 == 1 {
			s += "o"
		}
		s += ","
		pos += 8 + sz + sz&1
	}
	return s
}

func TestC16(t *testing.T) { core.Run(t, "C16", genC16, checkC16) }

// assembleC14 replays a C14 operation list on a Muxer and returns the file when Assemble accepts it
// and the result is inside C16's domain (for stills: canvas equals the picture size).
func assembleC14(c *c14Case) (data []byte, still bool, ok bool) {
	m := mux.NewMuxer()
	nFrames := 0
	var durs []int
	var first *c14Op
	cw, ch := 0, 0
	for i := range c.Ops {
		op := &c.Ops[i]
		switch op.Kind {
		case "addframe":
			d := op.Bitstream
			if op.HasAlph {
				pre := []byte("ALPH\x00\x00\x00\x00")
				n := len(op.Alph)
				pre[4], pre[5], pre[6], pre[7] = byte(n), byte(n>>8), byte(n>>16), byte(n>>24)
				pre = append(pre, op.Alph...)
				if n&1 == 1 {
					pre = append(pre, 0)
				}
				d = append(pre, op.Bitstream...)
			}
			var fo *mux.FrameOptions
			if !op.NilOpts {
				fo = &mux.FrameOptions{Duration: op.Duration, OffsetX: op.OffX, OffsetY: op.OffY}
				if op.BlendNone {
					fo.BlendMode = mux.BlendNone
				}
				if op.DisposeBG {
					fo.DisposeMode = mux.DisposeBackground
				}
			}
			if m.AddFrame(d, fo) != nil {
				return nil, false, false
			}
			if op.NilOpts {
				durs = append(durs, 0)
			} else {
				durs = append(durs, clampDur(op.Duration))
			}
			if first == nil {
				first = op
			}
			nFrames++
		case "setdispose":
			m.SetFrameDisposeMode(op.Index, mux.DisposeMode(op.IVal))
		case "setduration":
			m.SetFrameDuration(op.Index, op.IVal)
			if op.Index >= 0 && op.Index < nFrames {
				durs[op.Index] = clampDur(op.IVal)
			}
		case "canvas":
			m.SetCanvasSize(op.IVal, op.IVal2)
			cw, ch = op.IVal, op.IVal2
		case "loop":
			m.SetLoopCount(op.IVal)
		case "bg":
			m.SetBackgroundColor(op.UVal)
		case "icc":
			m.SetICCProfile(op.Blob)
		case "exif":
			m.SetEXIF(op.Blob)
		case "xmp":
			m.SetXMP(op.Blob)
		}
	}
	if nFrames == 0 || cw > 16383 || ch > 16383 {
		return nil, false, false
	}
	anyDur := false
	for _, d := range durs {
		if d > 0 {
			anyDur = true
		}
	}
	still = nFrames == 1 && !anyDur
	if still && cw > 0 && ch > 0 && (cw != first.W || ch != first.H) {
		return nil, false, false
	}
	if still && !first.NilOpts && (first.OffX != 0 || first.OffY != 0) {
		return nil, false, false // the muxer adds a still's offset to the canvas: canvas != picture
	}
	var buf bytes.Buffer
	if m.Assemble(&buf) != nil {
		return nil, false, false
	}
	return buf.Bytes(), still, true
}
