package props

import (
	"bytes"
	"fmt"
	"image"

	"github.com/deepteams/webp/verifharness/ref/cref"
	"github.com/deepteams/webp/verifharness/ref/xref"
	"github.com/deepteams/webp/verifharness/ref/yuvref"
)

// stillParts describes a still file for the differential oracle.
type stillParts struct {
	File      []byte
	Bitstream []byte
	Alph      []byte
	HasAlph   bool
	Lossless  bool
	W, H      int
	// RawToWitness: libwebp is given the bare bitstream instead of the RIFF file, so that the pad
	// byte behind an odd-sized chunk is not visible to it (it reads the pad byte as stream data,
	// which can turn a short stream into an accepted one)
	RawToWitness bool
}

// diffOutcome is the result of comparing the package's decoder with the witnesses
// (DESIGN.md section 5, witness policy).
type diffOutcome struct {
	RepoErr       error
	RepoImg       image.Image
	WitnessAccept int    // number of witnesses accepting the stream
	WitnessTotal  int    // number of witnesses consulted
	Truth         bool   // witnesses accept and agree with each other: ground truth established
	Mismatch      string // non-empty: repo accepted but differs from the established truth
	WitnessNote   string // why truth could not be established
}

func firstDiff(a, b []byte) int {
	n := len(a)
	if len(b) < n {
		n = len(b)
	}
	for i := 0; i < n; i++ {
		if a[i] != b[i] {
			return i
		}
	}
	if len(a) != len(b) {
		return n
	}
	return -1
}

func tightYCbCr(m *image.YCbCr) (y, u, v []byte) {
	b := m.Rect
	w, h := b.Dx(), b.Dy()
	cw, ch := (w+1)/2, (h+1)/2
	y = make([]byte, w*h)
	u = make([]byte, cw*ch)
	v = make([]byte, cw*ch)
	for j := 0; j < h; j++ {
		copy(y[j*w:(j+1)*w], m.Y[j*m.YStride:j*m.YStride+w])
	}
	for j := 0; j < ch; j++ {
		copy(u[j*cw:(j+1)*cw], m.Cb[j*m.CStride:j*m.CStride+cw])
		copy(v[j*cw:(j+1)*cw], m.Cr[j*m.CStride:j*m.CStride+cw])
	}
	return
}

func tightNRGBA(m *image.NRGBA) []byte {
	w, h := m.Rect.Dx(), m.Rect.Dy()
	out := make([]byte, w*h*4)
	for j := 0; j < h; j++ {
		copy(out[j*w*4:(j+1)*w*4], m.Pix[j*m.Stride:j*m.Stride+w*4])
	}
	return out
}

func diffStill(p *stillParts) *diffOutcome {
	o := &diffOutcome{}
	o.RepoImg, o.RepoErr = decodeBytes(p.File)
	lib := cref.Available()
	wf := p.File
	if p.RawToWitness && !p.HasAlph {
		wf = p.Bitstream
	}
	switch {
	case p.Lossless:
		// The memory-safe witness goes first: libwebp 1.2.4 (the system library) still has the
		// BuildHuffmanTable heap overflow on invalid prefix codes (CVE-2023-4863), so it is only shown
		// streams whose every code x/image has already validated and decoded.
		o.WitnessTotal++
		w2, _, _, err2 := xref.DecodeVP8L(p.Bitstream)
		if err2 == nil {
			o.WitnessAccept++
		}
		var w1 []byte
		ok1 := false
		if lib {
			o.WitnessTotal++
			if err2 != nil {
				o.WitnessNote = fmt.Sprintf("libwebp not consulted, x/image err=%v", err2)
				return o
			}
			var ww, hh int
			w1, ww, hh, ok1 = cref.DecodeRGBA(wf)
			if ok1 && (ww != p.W || hh != p.H) {
				o.WitnessNote = fmt.Sprintf("libwebp size %dx%d", ww, hh)
			}
			if ok1 {
				o.WitnessAccept++
			}
		}
		var truth []byte
		switch {
		case lib && ok1 && err2 == nil:
			if i := firstDiff(w1, w2); i >= 0 {
				o.WitnessNote = fmt.Sprintf("libwebp and x/image disagree (first at byte %d mod 4 = channel %d)", i-i%4, i%4)[:0] + fmt.Sprintf("libwebp and x/image disagree on channel %d", i%4)
				return o
			}
			truth = w1
		case !lib && err2 == nil:
			truth = w2
		default:
			if o.WitnessNote == "" {
				o.WitnessNote = fmt.Sprintf("libwebp accepted=%v x/image err=%v", ok1, err2)
			}
			return o
		}
		o.Truth = true
		if o.RepoErr != nil {
			return o
		}
		n, ok := o.RepoImg.(*image.NRGBA)
		if !ok {
			o.Mismatch = fmt.Sprintf("lossless decode returned %T", o.RepoImg)
			return o
		}
		if n.Rect.Dx() != p.W || n.Rect.Dy() != p.H {
			o.Mismatch = fmt.Sprintf("decoded size %v, stream says %dx%d", n.Rect, p.W, p.H)
			return o
		}
		if i := firstDiff(tightNRGBA(n), truth); i >= 0 {
			px := i / 4
			o.Mismatch = fmt.Sprintf("pixel (%d,%d) channel %d: package %d, reference decoders %d", px%p.W, px/p.W, i%4, tightNRGBA(n)[i], truth[i])
		}
		return o
	default:
		// lossy planes
		o.WitnessTotal++
		y2, err2 := xref.DecodeVP8(p.Bitstream)
		if err2 == nil {
			o.WitnessAccept++
		}
		var y1 *cref.YUV
		ok1 := false
		if lib {
			o.WitnessTotal++
			if err2 != nil {
				o.WitnessNote = fmt.Sprintf("libwebp not consulted, x/image err=%v", err2)
				return o
			}
			y1, ok1 = cref.DecodeYUV(wf)
			if ok1 {
				o.WitnessAccept++
			}
		}
		var ty, tu, tv []byte
		switch {
		case lib && ok1 && err2 == nil:
			if y1.W != y2.W || y1.H != y2.H || !bytes.Equal(y1.Y, y2.Y) || !bytes.Equal(y1.U, y2.U) || !bytes.Equal(y1.V, y2.V) {
				o.WitnessNote = "libwebp and x/image disagree on the Y/U/V planes"
				return o
			}
			ty, tu, tv = y1.Y, y1.U, y1.V
		case !lib && err2 == nil:
			ty, tu, tv = y2.Y, y2.U, y2.V
		default:
			o.WitnessNote = fmt.Sprintf("libwebp accepted=%v x/image err=%v", ok1, err2)
			return o
		}
		if !p.HasAlph || len(p.Alph) == 0 {
			o.Truth = true
			if o.RepoErr != nil {
				return o
			}
			m, ok := o.RepoImg.(*image.YCbCr)
			if !ok {
				o.Mismatch = fmt.Sprintf("lossy decode without alpha returned %T", o.RepoImg)
				return o
			}
			if m.Rect.Dx() != p.W || m.Rect.Dy() != p.H {
				o.Mismatch = fmt.Sprintf("decoded size %v, stream says %dx%d", m.Rect, p.W, p.H)
				return o
			}
			ry, ru, rv := tightYCbCr(m)
			if i := firstDiff(ry, ty); i >= 0 {
				o.Mismatch = fmt.Sprintf("Y(%d,%d): package %d, reference decoders %d", i%p.W, i/p.W, ry[i], ty[i])
			} else if i := firstDiff(ru, tu); i >= 0 {
				cw := (p.W + 1) / 2
				o.Mismatch = fmt.Sprintf("Cb(%d,%d): package %d, reference decoders %d", i%cw, i/cw, ru[i], tu[i])
			} else if i := firstDiff(rv, tv); i >= 0 {
				cw := (p.W + 1) / 2
				o.Mismatch = fmt.Sprintf("Cr(%d,%d): package %d, reference decoders %d", i%cw, i/cw, rv[i], tv[i])
			}
			return o
		}
		// with alpha: truth = RGBA. libwebp's RGBA confirmed by (reference upsampler over the
		// agreed planes) + (x/image alpha plane).
		o.WitnessTotal++
		xa, errA := xref.DecodeAlpha(p.Alph, p.Bitstream, p.W, p.H)
		if errA == nil {
			o.WitnessAccept++
		}
		rgb := yuvref.FancyRGB(ty, tu, tv, p.W, p.H)
		var truth []byte
		if lib {
			if errA != nil {
				o.WitnessNote = fmt.Sprintf("alpha: libwebp not consulted, x/image alpha err=%v", errA)
				return o
			}
			w1, ww, hh, okr := cref.DecodeRGBA(p.File)
			if !okr || errA != nil || ww != p.W || hh != p.H {
				o.WitnessNote = fmt.Sprintf("alpha: libwebp RGBA accepted=%v x/image alpha err=%v", okr, errA)
				return o
			}
			for i := 0; i < p.W*p.H; i++ {
				if w1[i*4] != rgb[i*3] || w1[i*4+1] != rgb[i*3+1] || w1[i*4+2] != rgb[i*3+2] {
					o.WitnessNote = fmt.Sprintf("libwebp RGB and reference upsampler disagree at pixel %d", i)
					return o
				}
				if w1[i*4+3] != xa[i] {
					o.WitnessNote = fmt.Sprintf("libwebp and x/image alpha disagree at pixel %d", i)
					return o
				}
			}
			truth = w1
		} else {
			if errA != nil {
				o.WitnessNote = fmt.Sprintf("x/image alpha err=%v", errA)
				return o
			}
			truth = make([]byte, p.W*p.H*4)
			for i := 0; i < p.W*p.H; i++ {
				truth[i*4], truth[i*4+1], truth[i*4+2], truth[i*4+3] = rgb[i*3], rgb[i*3+1], rgb[i*3+2], xa[i]
			}
		}
		o.Truth = true
		if o.RepoErr != nil {
			return o
		}
		n, ok := o.RepoImg.(*image.NRGBA)
		if !ok {
			o.Mismatch = fmt.Sprintf("lossy decode with alpha returned %T", o.RepoImg)
			return o
		}
		if n.Rect.Dx() != p.W || n.Rect.Dy() != p.H {
			o.Mismatch = fmt.Sprintf("decoded size %v, stream says %dx%d", n.Rect, p.W, p.H)
			return o
		}
		got := tightNRGBA(n)
		if i := firstDiff(got, truth); i >= 0 {
			px := i / 4
			o.Mismatch = fmt.Sprintf("pixel (%d,%d) channel %d: package %d, reference %d", px%p.W, px/p.W, i%4, got[i], truth[i])
		}
		return o
	}
}
