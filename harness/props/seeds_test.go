package props

import (
	"bytes"
	"fmt"
	"image"
	"os"
	"path/filepath"
	"sync"
	"time"

	"github.com/deepteams/webp/animation"
	"github.com/deepteams/webp/mux"
	"github.com/deepteams/webp/verifharness/gen"
	"github.com/deepteams/webp/verifharness/ref/cref"
	"github.com/deepteams/webp/verifharness/ref/riffwalk"
	"github.com/deepteams/webp/verifharness/ref/xref"
	"pgregory.net/rapid"
)

type seedFile struct {
	Name string
	Data []byte
}

var (
	seedOnce sync.Once
	seedPool []seedFile
)

func mkImg(w, h int, content, alpha string, seed uint64) *gen.Img {
	s := &gen.Img{W: w, H: h, Kind: "nrgba", Place: "tight", Content: content, Alpha: alpha}
	s.Pix = gen.RenderContent(w, h, content, alpha, seed)
	return s
}

func mustEncode(im *gen.Img, mod func(o *gen.Opts)) []byte {
	o := gen.FromDefault()
	o.NoMeta()
	if mod != nil {
		mod(o)
	}
	b, err := encodeImg(im.Build(), o)
	if err != nil {
		panic(err)
	}
	return b
}

// seeds returns the deterministic pool of small valid files of every kind the package and other
// encoders write (used by C05, C16, C17).
func seeds() []seedFile {
	seedOnce.Do(func() {
		add := func(name string, b []byte) {
			if len(b) > 0 {
				seedPool = append(seedPool, seedFile{name, b})
			}
		}
		add("lossy", mustEncode(mkImg(17, 19, "photo", "opaque", 1), nil))
		add("lossy-parts4", mustEncode(mkImg(40, 37, "photo", "opaque", 2), func(o *gen.Opts) { o.Partitions = 2; o.Segments = 4 }))
		add("lossy-parts8", mustEncode(mkImg(20, 130, "noise", "opaque", 3), func(o *gen.Opts) { o.Partitions = 3; o.SetQuality(30) }))
		add("lossy-alpha", mustEncode(mkImg(16, 16, "gradient", "gradient", 4), nil))
		add("lossy-alpha-raw", mustEncode(mkImg(13, 9, "photo", "binary", 5), func(o *gen.Opts) { o.AlphaCompression = 0; o.AlphaFiltering = 2 }))
		add("lossy-alpha-q", mustEncode(mkImg(21, 14, "photo", "noise", 6), func(o *gen.Opts) { o.AlphaQuality = 40 }))
		add("lossless-pal", mustEncode(mkImg(9, 9, "pal4", "opaque", 7), func(o *gen.Opts) { o.Lossless = true; o.Method = 6; o.SetQuality(100) }))
		add("lossless-photo-alpha", mustEncode(mkImg(33, 20, "photo", "levels", 8), func(o *gen.Opts) { o.Lossless = true }))
		add("lossless-tiled", mustEncode(mkImg(64, 40, "tiled", "opaque", 9), func(o *gen.Opts) { o.Lossless = true; o.Method = 4 }))
		// narrow lossless pictures: short plane-code distances wrap/clamp at small widths
		for i, d := range [][2]int{{1, 40}, {2, 33}, {3, 21}, {5, 17}, {7, 9}} {
			add(fmt.Sprintf("lossless-narrow-%dx%d", d[0], d[1]), mustEncode(mkImg(d[0], d[1], []string{"tiled", "pal4", "sparse", "tiled", "pal16"}[i], "opaque", uint64(30+i)), func(o *gen.Opts) { o.Lossless = true; o.Method = 2 + i%4 }))
		}
		// /verif-generated VP8L streams (backward references with every plane code, caches, meta codes)
		for i, wdt := range []int{1, 2, 4, 6, 13} {
			p := &gen.VP8LProg{W: wdt, H: 12 + i, CacheBits: i % 3, RefPct: 60, CachePct: 10 * (i % 3), LitSpread: 3, CodeStyle: "mixed", LongDist: i%2 == 0, Seed: uint64(900 + i)}
			if i == 4 {
				p.MetaBits, p.Groups = 2, 3
				p.Transforms = []gen.VP8LTransform{{Type: 3, NPal: 5}, {Type: 0, Bits: 2}}
			}
			bs, _ := p.Build()
			add(fmt.Sprintf("vp8lgen-w%d", wdt), xref.Simple("VP8L", bs))
		}
		{ // predictor modes 14/15 (defined as mode 0 by the specification), deep 15-bit codes and long copies
			p := &gen.VP8LProg{W: 23, H: 19, CacheBits: 4, RefPct: 20, CachePct: 10, LitSpread: 16, CodeStyle: "normal", CodeShape: "deep", LongCopies: true, Seed: 977,
				Transforms: []gen.VP8LTransform{{Type: 0, Bits: 2, Mode1415: true}, {Type: 1, Bits: 3}}}
			bs, _ := p.Build()
			add("vp8lgen-mode1415-deep", xref.Simple("VP8L", bs))
		}
		meta := func(o *gen.Opts) {
			o.ICC, o.ICCNil = []byte("ICCPROFILE!"), false
			o.EXIF, o.EXIFNil = []byte("Exif\x00\x00II*\x00"), false
			o.XMP, o.XMPNil = []byte("<x:xmpmeta/>"), false
		}
		add("lossy-alpha-meta", mustEncode(mkImg(12, 11, "gradient", "binary", 10), meta))
		add("lossless-meta", mustEncode(mkImg(10, 7, "pal16", "opaque", 11), func(o *gen.Opts) { o.Lossless = true; meta(o) }))
		// animations
		for _, a := range []struct {
			name              string
			lossless, mixed   bool
			alpha             string
		}{{"anim-lossless", true, false, "opaque"}, {"anim-lossless-alpha", true, false, "binary"}, {"anim-lossy-alpha", false, false, "gradient"}, {"anim-mixed", false, true, "binary"}} {
			var frames []image.Image
			var durs []int
			base := mkImg(20, 16, "pal16", a.alpha, 12)
			for i := 0; i < 4; i++ {
				f := *base
				f.Pix = append([]byte(nil), base.Pix...)
				for k := 0; k < 12; k++ { // small edit
					p := ((i*7+k)%(f.W*f.H))*4
					f.Pix[p] ^= 0x5a
				}
				frames = append(frames, f.Build())
				durs = append(durs, 40+i)
			}
			b, err := animEncode(20, 16, frames, durs, &animation.EncodeOptions{Lossless: a.lossless, AllowMixed: a.mixed, Quality: 60, LoopCount: 2, Kmax: 3}, []byte("icc"), nil, []byte("xmp!"), a.name == "anim-lossless")
			if err == nil {
				add(a.name, b)
			}
		}
		// valid pictures of more than 100,000 pixels in extreme shapes (fewer rows than CPU workers):
		// row-partitioned parallel paths of the readers get workers without work
		add("lossless-wide", mustEncode(mkImg(12000, 9, "pal16", "opaque", 41), func(o *gen.Opts) { o.Lossless = true; o.Method = 1 }))
		add("lossless-tall", mustEncode(mkImg(9, 12000, "pal4", "binary", 42), func(o *gen.Opts) { o.Lossless = true; o.Method = 1 }))
		add("lossyalpha-wide", mustEncode(mkImg(9000, 12, "flat", "levels", 43), func(o *gen.Opts) { o.Method = 1 }))
		// a longer animation (more frames than a small worker pool): frame-parallel readers queue work
		{
			var frames []image.Image
			var durs []int
			base := mkImg(12, 10, "pal16", "binary", 33)
			for i := 0; i < 14; i++ {
				f := *base
				f.Pix = append([]byte(nil), base.Pix...)
				for k := 0; k < 9; k++ {
					p := ((i*11 + k*5) % (f.W * f.H)) * 4
					f.Pix[p+1] ^= byte(0x11 * (i + 1))
				}
				frames = append(frames, f.Build())
				durs = append(durs, 30)
			}
			for _, ll := range []bool{true, false} {
				if b, err := animEncode(12, 10, frames, durs, &animation.EncodeOptions{Lossless: ll, Quality: 50, Kmax: 4}, nil, nil, nil, false); err == nil {
					add(map[bool]string{true: "anim-long-lossless", false: "anim-long-lossy"}[ll], b)
				}
			}
		}
		// muxer output from raw parts
		if rf, err := riffwalk.Parse(seedPool[3].Data); err == nil {
			m := mux.NewMuxer()
			fr := rf.Frames[0]
			pre := append([]byte("ALPH"), byte(len(fr.Alph)), byte(len(fr.Alph)>>8), 0, 0)
			pre = append(pre, fr.Alph...)
			if len(fr.Alph)&1 == 1 {
				pre = append(pre, 0)
			}
			data := append(pre, fr.Bitstream...)
			m.AddFrame(data, &mux.FrameOptions{Duration: 50})
			m.AddFrame(data, &mux.FrameOptions{Duration: 70, OffsetX: 2, OffsetY: 4, BlendMode: mux.BlendNone, DisposeMode: mux.DisposeBackground})
			m.SetCanvasSize(24, 24)
			m.SetLoopCount(7)
			m.SetEXIF([]byte("exifdata"))
			var buf bytes.Buffer
			if m.Assemble(&buf) == nil {
				add("mux-anim", buf.Bytes())
			}
		}
		// streams from other writers
		rapidFree := func(seed uint64) *gen.VP8Prog {
			// a fixed program (no rapid): plain fields
			return &gen.VP8Prog{W: 19, H: 21, SegEnabled: true, SegUpdateMap: true, SegUpdateData: true, SegQuant: [4]int{5, -7, 20, 0}, SegProbs: [3]int{120, 200, 90},
				FilterLevel: 20, Sharpness: 3, Log2Parts: 1, BaseQ: 40, UseSkip: true, SkipProba: 200, ModeSeed: seed, TokSeed: seed + 1, TokZeroRun: 50}
		}
		add("vp8gen", xref.Simple("VP8 ", rapidFree(77).Build()))
		if cref.Available() {
			im := mkImg(23, 18, "photo", "gradient", 13)
			add("libwebp-lossy-alpha", cref.EncodeRGBA(im.Pix, im.W, im.H, 55))
			add("libwebp-lossless", cref.EncodeLosslessRGBA(im.Pix, im.W, im.H))
			im2 := mkImg(30, 30, "pal4", "opaque", 14)
			add("libwebp-lossless-pal", cref.EncodeLosslessRGBA(im2.Pix, im2.W, im2.H))
		}
		// the repository's own test files
		root := os.Getenv("VERIF_REPO")
		if root == "" {
			root = "/repo"
		}
		filepath.Walk(filepath.Join(root, "testdata"), func(p string, info os.FileInfo, err error) error {
			if err == nil && !info.IsDir() && filepath.Ext(p) == ".webp" && info.Size() < 20000 {
				if b, e := os.ReadFile(p); e == nil {
					add("testdata/"+filepath.Base(p), b)
				}
			}
			return nil
		})
	})
	return seedPool
}

var _ = rapid.Int
var _ = time.Second
