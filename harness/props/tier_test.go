package props

import "os"

func tierThorough() bool { return os.Getenv("VERIF_TIER") == "thorough" }
