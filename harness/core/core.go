// Package core is the shared plumbing for all property checks: evidence counters, failing-case
// capture (the shrunk case becomes the replay file), replay mode that bypasses rapid, and the
// known-finding classification used to keep searching past listed defects.
package core

import (
	"encoding/json"
	"errors"
	"fmt"
	"hash/fnv"
	"os"
	"runtime"
	"runtime/debug"
	"sort"
	"strconv"
	"strings"
	"sync"
	"syscall"
	"testing"
	"time"

	"pgregory.net/rapid"
)

// Obs collects what one case contributed to the evidence. It is merged into the global
// statistics only for cases of the generation pass (not while shrinking).
type Obs struct {
	Labels     []string
	Sig        string // non-empty => case is non-trivial; distinct signatures are counted
	Inconcl    string // non-empty => case inconclusive (oracle disagreement etc.), not an evaluation
	Known      string // non-empty => matches the listed known finding with this id (excluded)
	SampleJSON any
}

func (o *Obs) Label(s string)                 { o.Labels = append(o.Labels, s) }
func (o *Obs) Labelf(format string, a ...any) { o.Labels = append(o.Labels, fmt.Sprintf(format, a...)) }
func (o *Obs) NonTrivial(format string, a ...any) { o.Sig = fmt.Sprintf(format, a...) }
func (o *Obs) Inconclusive(format string, a ...any) {
	o.Inconcl = fmt.Sprintf(format, a...)
}

type stats struct {
	mu           sync.Mutex
	Property     string           `json:"property"`
	Evaluations  int64            `json:"evaluations"`
	Labels       map[string]int64 `json:"labels"`
	sigs         map[uint64]struct{}
	SigHashes    []uint64         `json:"sig_hashes"`
	Samples      []any            `json:"samples"`
	Inconclusive map[string]int64 `json:"inconclusive"`
	InconclSamp  []any            `json:"inconclusive_samples"`
	Excluded     map[string]int64 `json:"excluded_known"`
	Failed       bool             `json:"failed"`
	FailMsg      string           `json:"fail_msg"`
	Requested    int              `json:"requested"`
	Extra        map[string]any   `json:"extra"`
}

var st = &stats{Labels: map[string]int64{}, sigs: map[uint64]struct{}{}, Inconclusive: map[string]int64{}, Excluded: map[string]int64{}, Extra: map[string]any{}}

var (
	failMu   sync.Mutex
	failCase json.RawMessage
	failMsg  string
	failed   bool
)

func hash64(s string) uint64 { h := fnv.New64a(); h.Write([]byte(s)); return h.Sum64() }

func merge(o *Obs) {
	st.mu.Lock()
	defer st.mu.Unlock()
	if o.Known != "" {
		st.Excluded[o.Known]++
		return
	}
	if o.Inconcl != "" {
		st.Inconclusive[o.Inconcl]++
		if len(st.InconclSamp) < 3 && o.SampleJSON != nil {
			st.InconclSamp = append(st.InconclSamp, o.SampleJSON)
		}
		return
	}
	st.Evaluations++
	for _, l := range o.Labels {
		st.Labels[l]++
	}
	if o.Sig != "" {
		st.sigs[hash64(o.Sig)] = struct{}{}
	}
	n := st.Evaluations
	if o.SampleJSON != nil && (n <= 2 || (n&(n-1)) == 0) && len(st.Samples) < 12 {
		st.Samples = append(st.Samples, o.SampleJSON)
	}
}

// SetExtra records an additional evidence field.
func SetExtra(k string, v any) { st.mu.Lock(); st.Extra[k] = v; st.mu.Unlock() }

// AddExtra adds n to a numeric extra field.
func AddExtra(k string, n int64) {
	st.mu.Lock()
	cur, _ := st.Extra[k].(int64)
	st.Extra[k] = cur + n
	st.mu.Unlock()
}

// KnownErr marks a check failure that matches a listed known finding.
type KnownErr struct{ ID, Msg string }

func (k *KnownErr) Error() string { return "known finding " + k.ID + ": " + k.Msg }

// Known returns an error classifying the failure as listed finding id, provided the id is
// listed in known_findings.json as an open finding. Otherwise the failure is a violation.
func Known(id, format string, a ...any) error {
	msg := fmt.Sprintf(format, a...)
	if IsListed(id) {
		return &KnownErr{ID: id, Msg: msg}
	}
	return fmt.Errorf("%s (class %s, not listed as known finding)", msg, id)
}

var (
	listedOnce sync.Once
	listed     map[string]bool
)

// IsListed reports whether id is an OPEN entry of /verif/known_findings.json.
func IsListed(id string) bool {
	listedOnce.Do(func() {
		listed = map[string]bool{}
		path := os.Getenv("VERIF_KNOWN")
		if path == "" {
			path = "/verif/known_findings.json"
		}
		b, err := os.ReadFile(path)
		if err != nil {
			return
		}
		var f struct {
			Open []struct {
				ID string `json:"id"`
			} `json:"open"`
		}
		if json.Unmarshal(b, &f) == nil {
			for _, e := range f.Open {
				listed[e.ID] = true
			}
		}
	})
	return listed[id]
}

// Run drives one property. gen draws a case through rapid; check decides it. With VERIF_REPLAY
// set the case is loaded from that JSON file and checked directly, without the library.
func Run[C any](t *testing.T, id string, gen func(*rapid.T) *C, check func(*C, *Obs) error) {
	st.Property = id
	curTest = t.Name()
	if p := os.Getenv("VERIF_REPLAY"); p != "" {
		b, err := os.ReadFile(p)
		if err != nil {
			t.Fatalf("replay: %v", err)
		}
		var env struct {
			Property string          `json:"property"`
			Test     string          `json:"test"`
			Case     json.RawMessage `json:"case"`
		}
		if err := json.Unmarshal(b, &env); err != nil {
			t.Fatalf("replay: %v", err)
		}
		if env.Property != id || (env.Test != "" && env.Test != t.Name()) {
			t.Skipf("replay file is for %s %s", env.Property, env.Test)
		}
		var c C
		if err := json.Unmarshal(env.Case, &c); err != nil {
			t.Fatalf("replay: %v", err)
		}
		o := &Obs{}
		err = safeCheck(check, &c, o)
		var k *KnownErr
		if errors.As(err, &k) {
			fmt.Printf("REPLAY-KNOWN property=%s id=%s %s\n", id, k.ID, k.Msg)
			return
		}
		if err != nil {
			fmt.Printf("REPLAY-FAIL property=%s %v\n", id, err)
			t.Fatalf("replay reproduces: %v", err)
		}
		fmt.Printf("REPLAY-PASS property=%s\n", id)
		return
	}
	shrinking := false
	rapid.Check(t, func(rt *rapid.T) {
		c := gen(rt)
		if lp := os.Getenv("VERIF_LASTCASE"); lp != "" {
			if b, e := json.Marshal(map[string]any{"property": id, "case": c}); e == nil {
				os.WriteFile(lp, b, 0o644)
			}
		}
		o := &Obs{}
		err := safeCheck(check, c, o)
		var k *KnownErr
		if errors.As(err, &k) {
			o.Known = k.ID
			err = nil
		}
		if !shrinking {
			merge(o)
		}
		if err != nil {
			shrinking = true
			recordFail(id, c, err.Error())
			if m := err.Error(); strings.HasPrefix(m, "WATCHDOG") || strings.HasPrefix(m, "hang:") {
				// a hung goroutine cannot be killed and keeps burning CPU: report the case as it is
				// (unshrunk) and leave the process instead of shrinking through more hangs
				Flush()
				fmt.Printf("--- FAIL: %s (hang; case saved unshrunk)\n%s\n", id, m)
				os.Exit(1)
			}
			rt.Fatalf("%s: %v", id, err)
		}
	})
}

// caseTimeout is a last-resort watchdog around every case (checks that are about hangs have
// their own, with confirmation). Cases take milliseconds to seconds; the default is 300 s.
func caseTimeout() time.Duration {
	if v := os.Getenv("VERIF_CASE_TIMEOUT_S"); v != "" {
		if n, err := strconv.Atoi(v); err == nil && n > 0 {
			return time.Duration(n) * time.Second
		}
	}
	return 300 * time.Second
}

func safeCheck[C any](check func(*C, *Obs) error, c *C, o *Obs) error {
	type res struct {
		err error
		o   Obs
	}
	ch := make(chan res, 1)
	go func() {
		var lo Obs
		var err error
		defer func() {
			if r := recover(); r != nil {
				err = fmt.Errorf("panic: %v\n%s", r, debug.Stack())
			}
			ch <- res{err, lo}
		}()
		err = check(c, &lo)
	}()
	var out res
	err := Guard(caseTimeout(), 0, func() error {
		out = <-ch
		return nil
	})
	if err == ErrTimeBudget {
		return fmt.Errorf("WATCHDOG: the case is still consuming CPU after %v (endless loop?)\n%s", 6*caseTimeout(), allStacks())
	}
	if err != nil {
		return err
	}
	*o = out.o
	return out.err
}

// ErrTimeBudget is returned by Guard when f is still running (and still consuming CPU) at the
// final limit and no reference duration was given: slowness is not a verdict.
var ErrTimeBudget = errors.New("time budget exhausted")

func cpuTime() time.Duration {
	var ru syscall.Rusage
	syscall.Getrusage(syscall.RUSAGE_SELF, &ru)
	return time.Duration(ru.Utime.Nano() + ru.Stime.Nano())
}

func allStacks() string {
	buf := make([]byte, 1<<16)
	return string(buf[:runtime.Stack(buf, true)])
}

// Guard runs f and tells a hang from a slow machine. Until `limit` it just waits. After that
// it samples the CPU time of the process: two consecutive 10 s windows with (almost) no CPU used
// mean nothing is runnable any more - a deadlock or lost wake-up - and a WATCHDOG error is
// returned. While the process keeps computing it waits on, up to max(6*limit, 200*ref), where
// ref is the duration the same work took just before on this machine (0 = unknown): beyond that
// a WATCHDOG error is returned when ref is known, ErrTimeBudget otherwise.
func Guard(limit, ref time.Duration, f func() error) error {
	ch := make(chan error, 1)
	go func() {
		defer func() {
			if p := recover(); p != nil {
				ch <- fmt.Errorf("panic: %v\n%s", p, debug.Stack())
			}
		}()
		ch <- f()
	}()
	start := time.Now()
	select {
	case err := <-ch:
		return err
	case <-time.After(limit):
	}
	final := 6 * limit
	if 200*ref > final {
		final = 200 * ref
	}
	flat := 0
	for {
		c0 := cpuTime()
		select {
		case err := <-ch:
			return err
		case <-time.After(10 * time.Second):
		}
		if cpuTime()-c0 < 30*time.Millisecond {
			flat++
		} else {
			flat = 0
		}
		if flat >= 2 {
			return fmt.Errorf("WATCHDOG: no result after %v and the process has stopped using CPU (deadlock or lost wake-up)\n%s", time.Since(start).Round(time.Second), allStacks())
		}
		if time.Since(start) > final {
			if ref > 0 {
				return fmt.Errorf("WATCHDOG: still running after %v, more than 200x the %v the same work took just before (livelock?)\n%s", time.Since(start).Round(time.Second), ref, allStacks())
			}
			return ErrTimeBudget
		}
	}
}

// curTest is the Go test function the running property belongs to; it is stored in the replay
// file so that a property with several tests replays a case only through the test that made it.
var curTest string

func recordFail(id string, c any, msg string) {
	b, err := json.Marshal(map[string]any{"property": id, "test": curTest, "case": c, "message": msg})
	if err != nil {
		b, _ = json.Marshal(map[string]any{"property": id, "message": msg, "marshal_error": err.Error()})
	}
	failMu.Lock()
	failCase, failMsg, failed = b, msg, true
	failMu.Unlock()
	// written eagerly: if the process dies later the last failing case survives
	if p := os.Getenv("VERIF_FAILCASE"); p != "" {
		os.WriteFile(p, b, 0o644)
	}
}

// FuzzCorpusBytes reads a Go native-fuzzing corpus/crasher file with a single []byte argument.
func FuzzCorpusBytes(path string) ([]byte, bool) {
	b, err := os.ReadFile(path)
	if err != nil || !strings.HasPrefix(string(b), "go test fuzz v1") {
		return nil, false
	}
	lines := strings.Split(strings.TrimSpace(string(b)), "\n")
	if len(lines) < 2 {
		return nil, false
	}
	l := strings.TrimSpace(lines[1])
	if !strings.HasPrefix(l, "[]byte(") || !strings.HasSuffix(l, ")") {
		return nil, false
	}
	q, err := strconv.Unquote(l[len("[]byte(") : len(l)-1])
	if err != nil {
		return nil, false
	}
	return []byte(q), true
}

// RecordFail lets non-rapid checks (enumerations) register a failing case.
func RecordFail(id string, c any, msg string) { recordFail(id, c, msg) }

// Merge lets non-rapid checks (enumerations) contribute evidence.
func Merge(id string, o *Obs) { st.Property = id; merge(o) }

// Flush writes the shard statistics to $VERIF_OUT. Called from TestMain.
func Flush() {
	p := os.Getenv("VERIF_OUT")
	if p == "" {
		return
	}
	st.mu.Lock()
	defer st.mu.Unlock()
	st.SigHashes = st.SigHashes[:0]
	for h := range st.sigs {
		st.SigHashes = append(st.SigHashes, h)
	}
	sort.Slice(st.SigHashes, func(i, j int) bool { return st.SigHashes[i] < st.SigHashes[j] })
	failMu.Lock()
	st.Failed, st.FailMsg = failed, failMsg
	failMu.Unlock()
	b, _ := json.Marshal(st)
	os.WriteFile(p, b, 0o644)
}
