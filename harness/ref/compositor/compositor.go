// Package compositor is the reference model of WebP animation canvas reconstruction, written
// from the container specification ("Assembling the canvas from frames") for /verif. It has no
// notion of key frames: every frame is composed onto the running canvas.
package compositor

import "image/color"

// Frame is one animation frame placed on the canvas.
type Frame struct {
	X, Y, W, H int
	Pix        []color.NRGBA // W*H, non-premultiplied
	Blend      bool          // true: alpha-blend onto the canvas; false: overwrite
	DisposeBG  bool          // clear this frame's rectangle before the next frame is rendered
}

// Pixel is a canvas pixel with the set of acceptable values (exact arithmetic and the integer
// formula may both be conformant in the degenerate cases).
type Pixel struct {
	V   color.NRGBA
	Alt color.NRGBA // alternative accepted value (== V when there is none)
}

// BlendInt is libwebp's documented integer approximation of the specified blend
// (BlendPixelNonPremult): dst_factor_a = (dst_a*(256-src_a))>>8; blend_a = src_a+dst_factor_a;
// scale = (1<<24)/blend_a; channel = ((src_c*src_a + dst_c*dst_factor_a)*scale)>>24.
func BlendInt(src, dst color.NRGBA) color.NRGBA {
	if src.A == 0 {
		return dst
	}
	sa, da := uint32(src.A), uint32(dst.A)
	df := (da * (256 - sa)) >> 8
	ba := sa + df
	scale := uint32(1<<24) / ba
	ch := func(s, d uint8) uint8 {
		v := ((uint32(s)*sa + uint32(d)*df) * scale) >> 24
		if v > 255 {
			v = 255
		}
		return uint8(v)
	}
	return color.NRGBA{ch(src.R, dst.R), ch(src.G, dst.G), ch(src.B, dst.B), uint8(ba)}
}

// Play returns the canvas (cw*ch pixels) after each frame.
func Play(cw, ch int, frames []Frame) [][]Pixel {
	canvas := make([]Pixel, cw*ch)
	var out [][]Pixel
	for i, f := range frames {
		if i > 0 && frames[i-1].DisposeBG {
			p := frames[i-1]
			for y := max(p.Y, 0); y < min(p.Y+p.H, ch); y++ {
				for x := max(p.X, 0); x < min(p.X+p.W, cw); x++ {
					canvas[y*cw+x] = Pixel{}
				}
			}
		}
		for y := max(f.Y, 0); y < min(f.Y+f.H, ch); y++ {
			for x := max(f.X, 0); x < min(f.X+f.W, cw); x++ {
				s := f.Pix[(y-f.Y)*f.W+(x-f.X)]
				d := &canvas[y*cw+x]
				if !f.Blend {
					*d = Pixel{s, s}
					continue
				}
				// blend onto every acceptable previous value; keep (primary, alternative)
				v := blend1(s, d.V)
				a := blend1(s, d.Alt)
				*d = Pixel{v.V, v.Alt}
				if a.V != v.V {
					d.Alt = a.V
				}
			}
		}
		snap := make([]Pixel, len(canvas))
		copy(snap, canvas)
		out = append(out, snap)
	}
	return out
}

func blend1(s, d color.NRGBA) Pixel {
	switch {
	case s.A == 0:
		return Pixel{d, d}
	case s.A == 255 || d.A == 0:
		// exact arithmetic gives the source pixel; the integer formula may be one less
		return Pixel{s, BlendInt(s, d)}
	}
	v := BlendInt(s, d)
	return Pixel{v, v}
}

// Match reports whether got is an acceptable value of p. Fully transparent results compare
// equal whatever their colour only when both acceptable values are fully transparent.
func (p Pixel) Match(got color.NRGBA) bool { return got == p.V || got == p.Alt }
