// Package vp8hdr reads the VP8 key-frame header from the specification (RFC 6386 sections 9 and
// 19.2) with its own boolean decoder. Written for /verif, independent of the package under test.
package vp8hdr

import (
	"errors"
	"fmt"
)

// BoolDec is the RFC 6386 section 7 boolean entropy decoder (straightforward form).
type BoolDec struct {
	data     []byte
	pos      int
	value    uint32
	rng      uint32
	bitCount int
	Overrun  bool // read past the end (zeros are supplied, as the RFC permits)
}

func NewBoolDec(b []byte) *BoolDec {
	d := &BoolDec{data: b, rng: 255}
	d.value = uint32(d.next())<<8 | uint32(d.next())
	return d
}

func (d *BoolDec) next() byte {
	if d.pos < len(d.data) {
		v := d.data[d.pos]
		d.pos++
		return v
	}
	d.pos++
	if d.pos > len(d.data)+2 {
		d.Overrun = true
	}
	return 0
}

// Bool decodes one boolean whose probability of being zero is prob/256.
func (d *BoolDec) Bool(prob int) int {
	split := 1 + (((d.rng - 1) * uint32(prob)) >> 8)
	bigSplit := split << 8
	var ret int
	if d.value >= bigSplit {
		ret = 1
		d.rng -= split
		d.value -= bigSplit
	} else {
		d.rng = split
	}
	for d.rng < 128 {
		d.value <<= 1
		d.rng <<= 1
		d.bitCount++
		if d.bitCount == 8 {
			d.bitCount = 0
			d.value |= uint32(d.next())
		}
	}
	return ret
}

func (d *BoolDec) Lit(n int) int {
	v := 0
	for i := 0; i < n; i++ {
		v = v<<1 | d.Bool(128)
	}
	return v
}

func (d *BoolDec) Signed(n int) int {
	v := d.Lit(n)
	if d.Bool(128) == 1 {
		return -v
	}
	return v
}

func (d *BoolDec) Flag() bool { return d.Bool(128) == 1 }

// Header is the parsed key-frame header up to the token-partition count.
type Header struct {
	KeyFrame       bool
	Profile        int
	Show           bool
	Part0Size      int
	Width, Height  int
	XScale, YScale int
	ColorSpace     int
	ClampType      int
	SegEnabled     bool
	SegUpdateMap   bool
	SegUpdateData  bool
	SegAbsDelta    bool
	SegQuant       [4]int
	SegFilter      [4]int
	SegProbs       [3]int
	FilterSimple   bool
	FilterLevel    int
	Sharpness      int
	LFDeltaEnabled bool
	LFDeltaUpdate  bool
	RefDelta       [4]int
	ModeDelta      [4]int
	NumPartitions  int
	PartSizes      []int // sizes of all token partitions (last = remainder)
	BaseQ          int
	QDelta         [5]int
	RefreshEntropy bool
	ProbaUpdates   int
	UseSkipProba   bool
	SkipProba      int
}

var (
	ErrShort     = errors.New("vp8: bitstream shorter than the 10-byte key-frame header")
	ErrStartCode = errors.New("vp8: bad start code")
)

// coefficient update probabilities (RFC 6386 section 13.4)
var coeffUpdateProbs = [4][8][3][11]uint8{
	{
		{{255, 255, 255, 255, 255, 255, 255, 255, 255, 255, 255}, {255, 255, 255, 255, 255, 255, 255, 255, 255, 255, 255}, {255, 255, 255, 255, 255, 255, 255, 255, 255, 255, 255}},
		{{176, 246, 255, 255, 255, 255, 255, 255, 255, 255, 255}, {223, 241, 252, 255, 255, 255, 255, 255, 255, 255, 255}, {249, 253, 253, 255, 255, 255, 255, 255, 255, 255, 255}},
		{{255, 244, 252, 255, 255, 255, 255, 255, 255, 255, 255}, {234, 254, 254, 255, 255, 255, 255, 255, 255, 255, 255}, {253, 255, 255, 255, 255, 255, 255, 255, 255, 255, 255}},
		{{255, 246, 254, 255, 255, 255, 255, 255, 255, 255, 255}, {239, 253, 254, 255, 255, 255, 255, 255, 255, 255, 255}, {254, 255, 254, 255, 255, 255, 255, 255, 255, 255, 255}},
		{{255, 248, 254, 255, 255, 255, 255, 255, 255, 255, 255}, {251, 255, 254, 255, 255, 255, 255, 255, 255, 255, 255}, {255, 255, 255, 255, 255, 255, 255, 255, 255, 255, 255}},
		{{255, 253, 254, 255, 255, 255, 255, 255, 255, 255, 255}, {251, 254, 254, 255, 255, 255, 255, 255, 255, 255, 255}, {254, 255, 254, 255, 255, 255, 255, 255, 255, 255, 255}},
		{{255, 254, 253, 255, 254, 255, 255, 255, 255, 255, 255}, {250, 255, 254, 255, 254, 255, 255, 255, 255, 255, 255}, {254, 255, 255, 255, 255, 255, 255, 255, 255, 255, 255}},
		{{255, 255, 255, 255, 255, 255, 255, 255, 255, 255, 255}, {255, 255, 255, 255, 255, 255, 255, 255, 255, 255, 255}, {255, 255, 255, 255, 255, 255, 255, 255, 255, 255, 255}},
	},
	{
		{{217, 255, 255, 255, 255, 255, 255, 255, 255, 255, 255}, {225, 252, 241, 253, 255, 255, 254, 255, 255, 255, 255}, {234, 250, 241, 250, 253, 255, 253, 254, 255, 255, 255}},
		{{255, 254, 255, 255, 255, 255, 255, 255, 255, 255, 255}, {223, 254, 254, 255, 255, 255, 255, 255, 255, 255, 255}, {238, 253, 254, 254, 255, 255, 255, 255, 255, 255, 255}},
		{{255, 248, 254, 255, 255, 255, 255, 255, 255, 255, 255}, {249, 254, 255, 255, 255, 255, 255, 255, 255, 255, 255}, {255, 255, 255, 255, 255, 255, 255, 255, 255, 255, 255}},
		{{255, 253, 255, 255, 255, 255, 255, 255, 255, 255, 255}, {247, 254, 255, 255, 255, 255, 255, 255, 255, 255, 255}, {255, 255, 255, 255, 255, 255, 255, 255, 255, 255, 255}},
		{{255, 253, 254, 255, 255, 255, 255, 255, 255, 255, 255}, {252, 255, 255, 255, 255, 255, 255, 255, 255, 255, 255}, {255, 255, 255, 255, 255, 255, 255, 255, 255, 255, 255}},
		{{255, 254, 254, 255, 255, 255, 255, 255, 255, 255, 255}, {253, 255, 255, 255, 255, 255, 255, 255, 255, 255, 255}, {255, 255, 255, 255, 255, 255, 255, 255, 255, 255, 255}},
		{{255, 254, 253, 255, 255, 255, 255, 255, 255, 255, 255}, {250, 255, 255, 255, 255, 255, 255, 255, 255, 255, 255}, {254, 255, 255, 255, 255, 255, 255, 255, 255, 255, 255}},
		{{255, 255, 255, 255, 255, 255, 255, 255, 255, 255, 255}, {255, 255, 255, 255, 255, 255, 255, 255, 255, 255, 255}, {255, 255, 255, 255, 255, 255, 255, 255, 255, 255, 255}},
	},
	{
		{{186, 251, 250, 255, 255, 255, 255, 255, 255, 255, 255}, {234, 251, 244, 254, 255, 255, 255, 255, 255, 255, 255}, {251, 251, 243, 253, 254, 255, 254, 255, 255, 255, 255}},
		{{255, 253, 254, 255, 255, 255, 255, 255, 255, 255, 255}, {236, 253, 254, 255, 255, 255, 255, 255, 255, 255, 255}, {251, 253, 253, 254, 254, 255, 255, 255, 255, 255, 255}},
		{{255, 254, 254, 255, 255, 255, 255, 255, 255, 255, 255}, {254, 254, 254, 255, 255, 255, 255, 255, 255, 255, 255}, {255, 255, 255, 255, 255, 255, 255, 255, 255, 255, 255}},
		{{255, 254, 255, 255, 255, 255, 255, 255, 255, 255, 255}, {254, 254, 255, 255, 255, 255, 255, 255, 255, 255, 255}, {254, 255, 255, 255, 255, 255, 255, 255, 255, 255, 255}},
		{{255, 255, 255, 255, 255, 255, 255, 255, 255, 255, 255}, {254, 255, 255, 255, 255, 255, 255, 255, 255, 255, 255}, {255, 255, 255, 255, 255, 255, 255, 255, 255, 255, 255}},
		{{255, 255, 255, 255, 255, 255, 255, 255, 255, 255, 255}, {255, 255, 255, 255, 255, 255, 255, 255, 255, 255, 255}, {255, 255, 255, 255, 255, 255, 255, 255, 255, 255, 255}},
		{{255, 255, 255, 255, 255, 255, 255, 255, 255, 255, 255}, {255, 255, 255, 255, 255, 255, 255, 255, 255, 255, 255}, {255, 255, 255, 255, 255, 255, 255, 255, 255, 255, 255}},
		{{255, 255, 255, 255, 255, 255, 255, 255, 255, 255, 255}, {255, 255, 255, 255, 255, 255, 255, 255, 255, 255, 255}, {255, 255, 255, 255, 255, 255, 255, 255, 255, 255, 255}},
	},
	{
		{{248, 255, 255, 255, 255, 255, 255, 255, 255, 255, 255}, {250, 254, 252, 254, 255, 255, 255, 255, 255, 255, 255}, {248, 254, 249, 253, 255, 255, 255, 255, 255, 255, 255}},
		{{255, 253, 253, 255, 255, 255, 255, 255, 255, 255, 255}, {246, 253, 253, 255, 255, 255, 255, 255, 255, 255, 255}, {252, 254, 251, 254, 254, 255, 255, 255, 255, 255, 255}},
		{{255, 254, 252, 255, 255, 255, 255, 255, 255, 255, 255}, {248, 254, 253, 255, 255, 255, 255, 255, 255, 255, 255}, {253, 255, 254, 254, 255, 255, 255, 255, 255, 255, 255}},
		{{255, 251, 254, 255, 255, 255, 255, 255, 255, 255, 255}, {245, 251, 254, 255, 255, 255, 255, 255, 255, 255, 255}, {253, 253, 254, 255, 255, 255, 255, 255, 255, 255, 255}},
		{{255, 251, 253, 255, 255, 255, 255, 255, 255, 255, 255}, {252, 253, 254, 255, 255, 255, 255, 255, 255, 255, 255}, {255, 254, 255, 255, 255, 255, 255, 255, 255, 255, 255}},
		{{255, 252, 255, 255, 255, 255, 255, 255, 255, 255, 255}, {249, 255, 254, 255, 255, 255, 255, 255, 255, 255, 255}, {255, 255, 254, 255, 255, 255, 255, 255, 255, 255, 255}},
		{{255, 255, 253, 255, 255, 255, 255, 255, 255, 255, 255}, {250, 255, 255, 255, 255, 255, 255, 255, 255, 255, 255}, {255, 255, 255, 255, 255, 255, 255, 255, 255, 255, 255}},
		{{255, 255, 255, 255, 255, 255, 255, 255, 255, 255, 255}, {254, 255, 255, 255, 255, 255, 255, 255, 255, 255, 255}, {255, 255, 255, 255, 255, 255, 255, 255, 255, 255, 255}},
	},
}

// ParsePlain reads only the 10 plain bytes.
func ParsePlain(b []byte) (*Header, error) {
	if len(b) < 10 {
		return nil, ErrShort
	}
	tag := uint32(b[0]) | uint32(b[1])<<8 | uint32(b[2])<<16
	h := &Header{KeyFrame: tag&1 == 0, Profile: int(tag>>1) & 7, Show: (tag>>4)&1 == 1, Part0Size: int(tag >> 5)}
	if b[3] != 0x9d || b[4] != 0x01 || b[5] != 0x2a {
		return h, ErrStartCode
	}
	h.Width = int(b[6]) | int(b[7]&0x3f)<<8
	h.XScale = int(b[7] >> 6)
	h.Height = int(b[8]) | int(b[9]&0x3f)<<8
	h.YScale = int(b[9] >> 6)
	return h, nil
}

// Parse reads the whole frame header and lays out the partitions. Structural problems are
// returned as errors.
func Parse(b []byte) (*Header, error) {
	h, _, err := ParseDec(b)
	return h, err
}

// ParseDec is Parse that also hands back the boolean decoder positioned at the first macroblock header
// (nil when the plain header is already unusable). Pos reports how many bytes of partition 0 it has consumed.
func ParseDec(b []byte) (*Header, *BoolDec, error) {
	h, d, err := parseDec(b)
	return h, d, err
}

func (d *BoolDec) Pos() int { return d.pos }

func parseDec(b []byte) (*Header, *BoolDec, error) {
	h, d, err := parseInner(b)
	return h, d, err
}

func parseInner(b []byte) (hh *Header, dd *BoolDec, ee error) {
	var d *BoolDec
	ret := func(h *Header, err error) (*Header, *BoolDec, error) { return h, d, err }
	h, err := ParsePlain(b)
	if err != nil {
		return ret(h, err)
	}
	if !h.KeyFrame {
		return ret(h, errors.New("vp8: not a key frame"))
	}
	if h.Profile > 3 {
		return ret(h, fmt.Errorf("vp8: profile %d > 3", h.Profile))
	}
	if !h.Show {
		return ret(h, errors.New("vp8: show_frame is 0"))
	}
	if h.Width == 0 || h.Height == 0 {
		return ret(h, errors.New("vp8: zero dimension"))
	}
	if 10+h.Part0Size > len(b) {
		return ret(h, fmt.Errorf("vp8: partition 0 (%d bytes) exceeds the %d-byte bitstream", h.Part0Size, len(b)))
	}
	d = NewBoolDec(b[10 : 10+h.Part0Size])
	h.ColorSpace = d.Lit(1)
	h.ClampType = d.Lit(1)
	h.SegEnabled = d.Flag()
	if h.SegEnabled {
		h.SegUpdateMap = d.Flag()
		h.SegUpdateData = d.Flag()
		if h.SegUpdateData {
			h.SegAbsDelta = d.Flag()
			for i := 0; i < 4; i++ {
				if d.Flag() {
					h.SegQuant[i] = d.Signed(7)
				}
			}
			for i := 0; i < 4; i++ {
				if d.Flag() {
					h.SegFilter[i] = d.Signed(6)
				}
			}
		}
		if h.SegUpdateMap {
			for i := 0; i < 3; i++ {
				h.SegProbs[i] = 255
				if d.Flag() {
					h.SegProbs[i] = d.Lit(8)
				}
			}
		}
	}
	h.FilterSimple = d.Flag()
	h.FilterLevel = d.Lit(6)
	h.Sharpness = d.Lit(3)
	h.LFDeltaEnabled = d.Flag()
	if h.LFDeltaEnabled {
		h.LFDeltaUpdate = d.Flag()
		if h.LFDeltaUpdate {
			for i := 0; i < 4; i++ {
				if d.Flag() {
					h.RefDelta[i] = d.Signed(6)
				}
			}
			for i := 0; i < 4; i++ {
				if d.Flag() {
					h.ModeDelta[i] = d.Signed(6)
				}
			}
		}
	}
	h.NumPartitions = 1 << d.Lit(2)
	h.BaseQ = d.Lit(7)
	for i := 0; i < 5; i++ {
		if d.Flag() {
			h.QDelta[i] = d.Signed(4)
		}
	}
	h.RefreshEntropy = d.Flag()
	for i := 0; i < 4; i++ {
		for j := 0; j < 8; j++ {
			for k := 0; k < 3; k++ {
				for l := 0; l < 11; l++ {
					if d.Bool(int(coeffUpdateProbs[i][j][k][l])) == 1 {
						d.Lit(8)
						h.ProbaUpdates++
					}
				}
			}
		}
	}
	h.UseSkipProba = d.Flag()
	if h.UseSkipProba {
		h.SkipProba = d.Lit(8)
	}
	if d.Overrun {
		return ret(h, errors.New("vp8: frame header runs past partition 0"))
	}
	// partition table
	rest := b[10+h.Part0Size:]
	tbl := 3 * (h.NumPartitions - 1)
	if len(rest) < tbl {
		return ret(h, fmt.Errorf("vp8: partition size table (%d bytes) truncated", tbl))
	}
	left := len(rest) - tbl
	for i := 0; i < h.NumPartitions-1; i++ {
		sz := int(rest[3*i]) | int(rest[3*i+1])<<8 | int(rest[3*i+2])<<16
		if sz > left {
			return ret(h, fmt.Errorf("vp8: token partition %d (%d bytes) exceeds the remaining %d bytes", i, sz, left))
		}
		left -= sz
		h.PartSizes = append(h.PartSizes, sz)
	}
	h.PartSizes = append(h.PartSizes, left)
	return ret(h, nil)
}
