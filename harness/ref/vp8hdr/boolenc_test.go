package vp8hdr

import (
	"math/rand"
	"testing"
)

func TestBoolRoundTrip(t *testing.T) {
	r := rand.New(rand.NewSource(1))
	for iter := 0; iter < 2000; iter++ {
		n := 1 + r.Intn(400)
		probs := make([]int, n)
		bits := make([]int, n)
		e := NewBoolEnc()
		for i := range probs {
			probs[i] = 1 + r.Intn(255)
			if r.Intn(3) == 0 {
				probs[i] = []int{1, 128, 255, 254, 2}[r.Intn(5)]
			}
			bits[i] = r.Intn(2)
			e.Put(probs[i], bits[i])
		}
		out := e.Finish()
		d := NewBoolDec(out)
		for i := range probs {
			if got := d.Bool(probs[i]); got != bits[i] {
				t.Fatalf("iter %d bit %d: got %d want %d", iter, i, got, bits[i])
			}
		}
	}
}
