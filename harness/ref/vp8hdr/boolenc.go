package vp8hdr

// BoolEnc is the RFC 6386 section 7.3 boolean entropy encoder (straightforward form).
type BoolEnc struct {
	out      []byte
	rng      uint32
	bottom   uint32
	bitCount int
}

func NewBoolEnc() *BoolEnc { return &BoolEnc{rng: 255, bitCount: 24} }

func (e *BoolEnc) addOne() {
	i := len(e.out) - 1
	for i >= 0 && e.out[i] == 255 {
		e.out[i] = 0
		i--
	}
	if i >= 0 {
		e.out[i]++
	}
}

// Put writes one boolean whose probability of being zero is prob/256.
func (e *BoolEnc) Put(prob int, b int) {
	split := 1 + (((e.rng - 1) * uint32(prob)) >> 8)
	if b != 0 {
		e.bottom += split
		e.rng -= split
	} else {
		e.rng = split
	}
	for e.rng < 128 {
		e.rng <<= 1
		if e.bottom&(1<<31) != 0 {
			e.addOne()
		}
		e.bottom <<= 1
		e.bitCount--
		if e.bitCount == 0 {
			e.out = append(e.out, byte(e.bottom>>24))
			e.bottom &= (1 << 24) - 1
			e.bitCount = 8
		}
	}
}

func (e *BoolEnc) Lit(v, n int) {
	for i := n - 1; i >= 0; i-- {
		e.Put(128, (v>>uint(i))&1)
	}
}

func (e *BoolEnc) Flag(b bool) {
	if b {
		e.Put(128, 1)
	} else {
		e.Put(128, 0)
	}
}

// Signed writes magnitude (n bits) then sign.
func (e *BoolEnc) Signed(v, n int) {
	m := v
	if m < 0 {
		m = -m
	}
	e.Lit(m, n)
	e.Flag(v < 0)
}

// Optional writes the "flag + signed value" form; zero is written as flag 0 unless force.
func (e *BoolEnc) Optional(v, n int, force bool) {
	if v == 0 && !force {
		e.Flag(false)
		return
	}
	e.Flag(true)
	e.Signed(v, n)
}

// Finish flushes the encoder and returns the bytes.
func (e *BoolEnc) Finish() []byte {
	c := e.bitCount
	v := e.bottom
	if v&(1<<uint(32-c)) != 0 {
		e.addOne()
	}
	v <<= uint(c & 7)
	c = (c >> 3) - 1
	for ; c >= 0; c-- {
		v <<= 8
	}
	// write the remaining 4 bytes
	c = 3
	for ; c >= 0; c-- {
		e.out = append(e.out, byte(v>>24))
		v <<= 8
	}
	return e.out
}

// CoeffUpdateProb exposes the coefficient-probability update table.
func CoeffUpdateProb(i, j, k, l int) int { return int(coeffUpdateProbs[i][j][k][l]) }
