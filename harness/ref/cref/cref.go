// Package cref loads the system libwebp (libwebp.so.7, 1.2.4) with dlopen and exposes the few
// entry points used as the reference implementation. It is a soft dependency: Available()
// reports false when the library cannot be loaded and callers fall back to other witnesses.
package cref

/*
#cgo LDFLAGS: -ldl
#include <dlfcn.h>
#include <stdint.h>
#include <stdlib.h>
#include <stddef.h>

typedef uint8_t* (*dec_rgba_fn)(const uint8_t*, size_t, int*, int*);
typedef uint8_t* (*dec_yuv_fn)(const uint8_t*, size_t, int*, int*, uint8_t**, uint8_t**, int*, int*);
typedef int (*getinfo_fn)(const uint8_t*, size_t, int*, int*);
typedef void (*free_fn)(void*);
typedef size_t (*enc_ll_fn)(const uint8_t*, int, int, int, uint8_t**);
typedef size_t (*enc_fn)(const uint8_t*, int, int, int, float, uint8_t**);

static void* h;
static dec_rgba_fn p_dec_rgba;
static dec_yuv_fn p_dec_yuv;
static getinfo_fn p_getinfo;
static free_fn p_free;
static enc_ll_fn p_enc_ll;
static enc_fn p_enc;

static int cref_load(void) {
  const char* names[] = {"libwebp.so.7", "/usr/lib/x86_64-linux-gnu/libwebp.so.7", "libwebp.so", NULL};
  for (int i = 0; names[i] && !h; i++) h = dlopen(names[i], RTLD_NOW | RTLD_LOCAL);
  if (!h) return 0;
  p_dec_rgba = (dec_rgba_fn)dlsym(h, "WebPDecodeRGBA");
  p_dec_yuv = (dec_yuv_fn)dlsym(h, "WebPDecodeYUV");
  p_getinfo = (getinfo_fn)dlsym(h, "WebPGetInfo");
  p_free = (free_fn)dlsym(h, "WebPFree");
  p_enc_ll = (enc_ll_fn)dlsym(h, "WebPEncodeLosslessRGBA");
  p_enc = (enc_fn)dlsym(h, "WebPEncodeRGBA");
  return p_dec_rgba && p_dec_yuv && p_getinfo && p_free && p_enc_ll && p_enc;
}
static uint8_t* cref_dec_rgba(const uint8_t* d, size_t n, int* w, int* hh) { return p_dec_rgba(d, n, w, hh); }
static uint8_t* cref_dec_yuv(const uint8_t* d, size_t n, int* w, int* hh, uint8_t** u, uint8_t** v, int* s, int* uvs) { return p_dec_yuv(d, n, w, hh, u, v, s, uvs); }
static int cref_getinfo(const uint8_t* d, size_t n, int* w, int* hh) { return p_getinfo(d, n, w, hh); }
static void cref_free(void* p) { p_free(p); }
static size_t cref_enc_ll(const uint8_t* d, int w, int hh, int stride, uint8_t** out) { return p_enc_ll(d, w, hh, stride, out); }
static size_t cref_enc(const uint8_t* d, int w, int hh, int stride, float q, uint8_t** out) { return p_enc(d, w, hh, stride, q, out); }
*/
import "C"

import (
	"sync"
	"unsafe"
)

var (
	once sync.Once
	ok   bool
)

// Available reports whether libwebp could be loaded.
func Available() bool {
	once.Do(func() { ok = C.cref_load() != 0 })
	return ok
}

// DecodeRGBA returns non-premultiplied RGBA (fancy upsampling for lossy), or ok=false if libwebp
// rejects the data.
func DecodeRGBA(data []byte) (pix []byte, w, h int, accepted bool) {
	if !Available() || len(data) == 0 {
		return nil, 0, 0, false
	}
	var cw, ch C.int
	p := C.cref_dec_rgba((*C.uint8_t)(unsafe.Pointer(&data[0])), C.size_t(len(data)), &cw, &ch)
	if p == nil {
		return nil, 0, 0, false
	}
	defer C.cref_free(unsafe.Pointer(p))
	w, h = int(cw), int(ch)
	pix = C.GoBytes(unsafe.Pointer(p), C.int(w*h*4))
	return pix, w, h, true
}

// YUV holds tight planes as returned by WebPDecodeYUV.
type YUV struct {
	W, H    int
	Y, U, V []byte // Y: W*H; U,V: ((W+1)/2)*((H+1)/2)
}

// DecodeYUV returns the decoded (post-filter) planes.
func DecodeYUV(data []byte) (*YUV, bool) {
	if !Available() || len(data) == 0 {
		return nil, false
	}
	var cw, ch, stride, uvStride C.int
	var u, v *C.uint8_t
	p := C.cref_dec_yuv((*C.uint8_t)(unsafe.Pointer(&data[0])), C.size_t(len(data)), &cw, &ch, &u, &v, &stride, &uvStride)
	if p == nil {
		return nil, false
	}
	defer C.cref_free(unsafe.Pointer(p))
	w, h := int(cw), int(ch)
	cwid, chei := (w+1)/2, (h+1)/2
	out := &YUV{W: w, H: h, Y: make([]byte, w*h), U: make([]byte, cwid*chei), V: make([]byte, cwid*chei)}
	ys := unsafe.Slice((*byte)(unsafe.Pointer(p)), int(stride)*h)
	for y := 0; y < h; y++ {
		copy(out.Y[y*w:(y+1)*w], ys[y*int(stride):])
	}
	us := unsafe.Slice((*byte)(unsafe.Pointer(u)), int(uvStride)*chei)
	vs := unsafe.Slice((*byte)(unsafe.Pointer(v)), int(uvStride)*chei)
	for y := 0; y < chei; y++ {
		copy(out.U[y*cwid:(y+1)*cwid], us[y*int(uvStride):])
		copy(out.V[y*cwid:(y+1)*cwid], vs[y*int(uvStride):])
	}
	return out, true
}

// GetInfo returns the dimensions libwebp reports.
func GetInfo(data []byte) (w, h int, accepted bool) {
	if !Available() || len(data) == 0 {
		return 0, 0, false
	}
	var cw, ch C.int
	if C.cref_getinfo((*C.uint8_t)(unsafe.Pointer(&data[0])), C.size_t(len(data)), &cw, &ch) == 0 {
		return 0, 0, false
	}
	return int(cw), int(ch), true
}

// EncodeLosslessRGBA encodes tight non-premultiplied RGBA with libwebp's lossless encoder.
func EncodeLosslessRGBA(pix []byte, w, h int) []byte {
	if !Available() {
		return nil
	}
	var out *C.uint8_t
	n := C.cref_enc_ll((*C.uint8_t)(unsafe.Pointer(&pix[0])), C.int(w), C.int(h), C.int(w*4), &out)
	if n == 0 || out == nil {
		return nil
	}
	defer C.cref_free(unsafe.Pointer(out))
	return C.GoBytes(unsafe.Pointer(out), C.int(n))
}

// EncodeRGBA encodes with libwebp's lossy encoder at quality q.
func EncodeRGBA(pix []byte, w, h int, q float32) []byte {
	if !Available() {
		return nil
	}
	var out *C.uint8_t
	n := C.cref_enc((*C.uint8_t)(unsafe.Pointer(&pix[0])), C.int(w), C.int(h), C.int(w*4), C.float(q), &out)
	if n == 0 || out == nil {
		return nil
	}
	defer C.cref_free(unsafe.Pointer(out))
	return C.GoBytes(unsafe.Pointer(out), C.int(n))
}
