// Copyright 2011 The Go Authors. All rights reserved.
// Use of this source code is governed by a BSD-style
// license that can be found in the LICENSE file.

package xwebp

import (
	"bytes"
	"errors"
	"image"
	"image/color"
	"io"

	"golang.org/x/image/riff"
	vp8 "github.com/deepteams/webp/verifharness/ref/xvp8"
	vp8l "github.com/deepteams/webp/verifharness/ref/xvp8l"
)

var errInvalidFormat = errors.New("webp: invalid format")

var (
	fccALPH = riff.FourCC{'A', 'L', 'P', 'H'}
	fccVP8  = riff.FourCC{'V', 'P', '8', ' '}
	fccVP8L = riff.FourCC{'V', 'P', '8', 'L'}
	fccVP8X = riff.FourCC{'V', 'P', '8', 'X'}
	fccWEBP = riff.FourCC{'W', 'E', 'B', 'P'}
)

func decode(r io.Reader, configOnly bool) (image.Image, image.Config, error) {
	formType, riffReader, err := riff.NewReader(r)
	if err != nil {
		return nil, image.Config{}, err
	}
	if formType != fccWEBP {
		return nil, image.Config{}, errInvalidFormat
	}

	var (
		alpha          []byte
		alphaStride    int
		wantAlpha      bool
		widthMinusOne  uint32
		heightMinusOne uint32
		buf            [10]byte
	)
	for {
		chunkID, chunkLen, chunkData, err := riffReader.Next()
		if err == io.EOF {
			err = errInvalidFormat
		}
		if err != nil {
			return nil, image.Config{}, err
		}

		switch chunkID {
		case fccALPH:
			if !wantAlpha {
				return nil, image.Config{}, errInvalidFormat
			}
			wantAlpha = false
			// Read the Pre-processing | Filter | Compression byte.
			if _, err := io.ReadFull(chunkData, buf[:1]); err != nil {
				if err == io.EOF {
					err = errInvalidFormat
				}
				return nil, image.Config{}, err
			}
			alpha, alphaStride, err = readAlpha(chunkData, widthMinusOne, heightMinusOne, buf[0]&0x03)
			if err != nil {
				return nil, image.Config{}, err
			}
			unfilterAlpha(alpha, alphaStride, (buf[0]>>2)&0x03)

		case fccVP8:
			if wantAlpha || int32(chunkLen) < 0 {
				return nil, image.Config{}, errInvalidFormat
			}
			d := vp8.NewDecoder()
			d.Init(chunkData, int(chunkLen))
			fh, err := d.DecodeFrameHeader()
			if err != nil {
				return nil, image.Config{}, err
			}
			if configOnly {
				return nil, image.Config{
					ColorModel: color.YCbCrModel,
					Width:      fh.Width,
					Height:     fh.Height,
				}, nil
			}
			m, err := d.DecodeFrame()
			if err != nil {
				return nil, image.Config{}, err
			}
			if alpha != nil {
				return &image.NYCbCrA{
					YCbCr:   *m,
					A:       alpha,
					AStride: alphaStride,
				}, image.Config{}, nil
			}
			return m, image.Config{}, nil

		case fccVP8L:
			if wantAlpha || alpha != nil {
				return nil, image.Config{}, errInvalidFormat
			}
			if configOnly {
				c, err := vp8l.DecodeConfig(chunkData)
				return nil, c, err
			}
			m, err := vp8l.Decode(chunkData)
			return m, image.Config{}, err

		case fccVP8X:
			if chunkLen != 10 {
				return nil, image.Config{}, errInvalidFormat
			}
			if _, err := io.ReadFull(chunkData, buf[:10]); err != nil {
				return nil, image.Config{}, err
			}
			const (
				animationBit    = 1 << 1
				xmpMetadataBit  = 1 << 2
				exifMetadataBit = 1 << 3
				alphaBit        = 1 << 4
				iccProfileBit   = 1 << 5
			)
			if buf[0] != alphaBit {
				return nil, image.Config{}, errors.New("webp: non-Alpha VP8X is not implemented")
			}
			widthMinusOne = uint32(buf[4]) | uint32(buf[5])<<8 | uint32(buf[6])<<16
			heightMinusOne = uint32(buf[7]) | uint32(buf[8])<<8 | uint32(buf[9])<<16
			if configOnly {
				return nil, image.Config{
					ColorModel: color.NYCbCrAModel,
					Width:      int(widthMinusOne) + 1,
					Height:     int(heightMinusOne) + 1,
				}, nil
			}
			wantAlpha = true

		default:
			return nil, image.Config{}, errInvalidFormat
		}
	}
}

func readAlpha(chunkData io.Reader, widthMinusOne, heightMinusOne uint32, compression byte) (
	alpha []byte, alphaStride int, err error) {

	switch compression {
	case 0:
		w := int(widthMinusOne) + 1
		h := int(heightMinusOne) + 1
		alpha = make([]byte, w*h)
		if _, err := io.ReadFull(chunkData, alpha); err != nil {
			return nil, 0, err
		}
		return alpha, w, nil

	case 1:
		// Read the VP8L-compressed alpha values. First, synthesize a 5-byte VP8L header:
		// a 1-byte magic number, a 14-bit widthMinusOne, a 14-bit heightMinusOne,
		// a 1-bit (ignored, zero) alphaIsUsed and a 3-bit (zero) version.
		// TODO(nigeltao): be more efficient than decoding an *image.NRGBA just to
		// extract the green values to a separately allocated []byte. Fixing this
		// will require changes to the vp8l package's API.
		if widthMinusOne > 0x3fff || heightMinusOne > 0x3fff {
			return nil, 0, errors.New("webp: invalid format")
		}
		alphaImage, err := vp8l.Decode(io.MultiReader(
			bytes.NewReader([]byte{
				0x2f, // VP8L magic number.
				uint8(widthMinusOne),
				uint8(widthMinusOne>>8) | uint8(heightMinusOne<<6),
				uint8(heightMinusOne >> 2),
				uint8(heightMinusOne >> 10),
			}),
			chunkData,
		))
		if err != nil {
			return nil, 0, err
		}
		// The green values of the inner NRGBA image are the alpha values of the
		// outer NYCbCrA image.
		pix := alphaImage.(*image.NRGBA).Pix
		alpha = make([]byte, len(pix)/4)
		for i := range alpha {
			alpha[i] = pix[4*i+1]
		}
		return alpha, int(widthMinusOne) + 1, nil
	}
	return nil, 0, errInvalidFormat
}

func unfilterAlpha(alpha []byte, alphaStride int, filter byte) {
	if len(alpha) == 0 || alphaStride == 0 {
		return
	}
	switch filter {
	case 1: // Horizontal filter.
		for i := 1; i < alphaStride; i++ {
			alpha[i] += alpha[i-1]
		}
		for i := alphaStride; i < len(alpha); i += alphaStride {
			// The first column is equivalent to the vertical filter.
			alpha[i] += alpha[i-alphaStride]

			for j := 1; j < alphaStride; j++ {
				alpha[i+j] += alpha[i+j-1]
			}
		}

	case 2: // Vertical filter.
		// The first row is equivalent to the horizontal filter.
		for i := 1; i < alphaStride; i++ {
			alpha[i] += alpha[i-1]
		}

		for i := alphaStride; i < len(alpha); i++ {
			alpha[i] += alpha[i-alphaStride]
		}

	case 3: // Gradient filter.
		// The first row is equivalent to the horizontal filter.
		for i := 1; i < alphaStride; i++ {
			alpha[i] += alpha[i-1]
		}

		for i := alphaStride; i < len(alpha); i += alphaStride {
			// The first column is equivalent to the vertical filter.
			alpha[i] += alpha[i-alphaStride]

			// The interior is predicted on the three top/left pixels.
			for j := 1; j < alphaStride; j++ {
				c := int(alpha[i+j-alphaStride-1])
				b := int(alpha[i+j-alphaStride])
				a := int(alpha[i+j-1])
				x := a + b - c
				if x < 0 {
					x = 0
				} else if x > 255 {
					x = 255
				}
				alpha[i+j] += uint8(x)
			}
		}
	}
}

// Decode reads a WEBP image from r and returns it as an image.Image.
func Decode(r io.Reader) (image.Image, error) {
	m, _, err := decode(r, false)
	if err != nil {
		return nil, err
	}
	return m, err
}

// DecodeConfig returns the color model and dimensions of a WEBP image without
// decoding the entire image.
func DecodeConfig(r io.Reader) (image.Config, error) {
	_, c, err := decode(r, true)
	return c, err
}

// /verif change: the upstream init() registering the "webp" format with package image is
// removed, so that image.Decode in the harness binary dispatches to the package under test only.
