// Package xref wraps golang.org/x/image/{webp,vp8,vp8l} (an independently written decoder) as a
// third witness.
package xref

import (
	"bytes"
	"encoding/binary"
	"fmt"
	"image"

	vp8 "github.com/deepteams/webp/verifharness/ref/xvp8"
	vp8l "github.com/deepteams/webp/verifharness/ref/xvp8l"
	"github.com/deepteams/webp/verifharness/ref/xwebp"
)

// YUV holds tight planes of the visible picture.
type YUV struct {
	W, H    int
	Y, U, V []byte
}

func tight(m *image.YCbCr) *YUV {
	b := m.Rect
	w, h := b.Dx(), b.Dy()
	cw, ch := (w+1)/2, (h+1)/2
	out := &YUV{W: w, H: h, Y: make([]byte, w*h), U: make([]byte, cw*ch), V: make([]byte, cw*ch)}
	for y := 0; y < h; y++ {
		o := m.YOffset(b.Min.X, b.Min.Y+y)
		copy(out.Y[y*w:(y+1)*w], m.Y[o:o+w])
	}
	for y := 0; y < ch; y++ {
		o := m.COffset(b.Min.X, b.Min.Y+2*y)
		copy(out.U[y*cw:(y+1)*cw], m.Cb[o:o+cw])
		copy(out.V[y*cw:(y+1)*cw], m.Cr[o:o+cw])
	}
	return out
}

// DecodeVP8 decodes a raw VP8 key frame with the vendored x/image/vp8 (inverse DCT widened to
// int64, see ref/xvp8/idct.go; otherwise upstream).
func DecodeVP8(bs []byte) (y *YUV, err error) {
	defer func() {
		if r := recover(); r != nil {
			err = fmt.Errorf("x/image/vp8 panic: %v", r)
		}
	}()
	d := vp8.NewDecoder()
	d.Init(bytes.NewReader(bs), len(bs))
	if _, err := d.DecodeFrameHeader(); err != nil {
		return nil, err
	}
	m, err := d.DecodeFrame()
	if err != nil {
		return nil, err
	}
	return tight(m), nil
}

// DecodeVP8L decodes a raw VP8L bitstream to tight NRGBA bytes.
func DecodeVP8L(bs []byte) (pix []byte, w, h int, err error) {
	defer func() {
		if r := recover(); r != nil {
			err = fmt.Errorf("x/image/vp8l panic: %v", r)
		}
	}()
	m, err := vp8l.Decode(bytes.NewReader(bs))
	if err != nil {
		return nil, 0, 0, err
	}
	n := m.(*image.NRGBA)
	w, h = n.Rect.Dx(), n.Rect.Dy()
	pix = make([]byte, w*h*4)
	for y := 0; y < h; y++ {
		copy(pix[y*w*4:(y+1)*w*4], n.Pix[y*n.Stride:y*n.Stride+w*4])
	}
	return pix, w, h, nil
}

// DecodeAlpha decodes an ALPH payload through x/image/webp by wrapping it, together with the
// given VP8 bitstream, into a minimal VP8X file. Returns the tight alpha plane.
func DecodeAlpha(alph, vp8bs []byte, w, h int) (a []byte, err error) {
	defer func() {
		if r := recover(); r != nil {
			err = fmt.Errorf("x/image/webp panic: %v", r)
		}
	}()
	f := MinimalVP8X(alph, vp8bs, w, h)
	m, err := xwebp.Decode(bytes.NewReader(f))
	if err != nil {
		return nil, err
	}
	n, ok := m.(*image.NYCbCrA)
	if !ok {
		return nil, fmt.Errorf("x/image returned %T", m)
	}
	a = make([]byte, w*h)
	for y := 0; y < h; y++ {
		copy(a[y*w:(y+1)*w], n.A[y*n.AStride:y*n.AStride+w])
	}
	return a, nil
}

func chunk(id string, data []byte) []byte {
	b := make([]byte, 8, 8+len(data)+1)
	copy(b, id)
	binary.LittleEndian.PutUint32(b[4:], uint32(len(data)))
	b = append(b, data...)
	if len(data)&1 == 1 {
		b = append(b, 0)
	}
	return b
}

// MinimalVP8X builds RIFF/WEBP/VP8X(alpha)/ALPH/VP8.
func MinimalVP8X(alph, vp8bs []byte, w, h int) []byte {
	x := make([]byte, 10)
	x[0] = 0x10
	x[4], x[5], x[6] = byte(w-1), byte((w-1)>>8), byte((w-1)>>16)
	x[7], x[8], x[9] = byte(h-1), byte((h-1)>>8), byte((h-1)>>16)
	body := append([]byte("WEBP"), chunk("VP8X", x)...)
	body = append(body, chunk("ALPH", alph)...)
	body = append(body, chunk("VP8 ", vp8bs)...)
	out := make([]byte, 8, 8+len(body))
	copy(out, "RIFF")
	binary.LittleEndian.PutUint32(out[4:], uint32(len(body)))
	return append(out, body...)
}

// Simple builds RIFF/WEBP/<id> with one chunk.
func Simple(id string, bs []byte) []byte {
	body := append([]byte("WEBP"), chunk(id, bs)...)
	out := make([]byte, 8, 8+len(body))
	copy(out, "RIFF")
	binary.LittleEndian.PutUint32(out[4:], uint32(len(body)))
	return append(out, body...)
}
