// Package riffwalk is an independent, strict structural validator for WebP files, written from
// the WebP container specification for /verif. Parse returns an error for any structural rule a
// conforming *writer* must respect. Tolerant() does a best-effort read for hostile inputs.
package riffwalk

import (
	"encoding/binary"
	"fmt"

	"github.com/deepteams/webp/verifharness/ref/vp8hdr"
)

type Chunk struct {
	ID   string
	Off  int // offset of the chunk header in the file
	Data []byte
}

type Frame struct {
	X, Y, W, H  int // placement on canvas (still: 0,0,canvas)
	Duration    int
	BlendNone   bool
	DisposeBG   bool
	Alph        []byte // ALPH payload (nil if absent)
	HasAlph     bool
	Bitstream   []byte
	Lossless    bool
	BW, BH      int  // dimensions in the bitstream header
	VP8LAlpha   bool // VP8L "alpha is used" hint
	VP8         *vp8hdr.Header
	SubUnknown  int
	BitstreamID string
}

type File struct {
	Chunks                  []Chunk
	First                   string // "VP8 ", "VP8L", "VP8X"
	HasVP8X                 bool
	Flags                   byte
	CanvasW, CanvasH        int
	Animated                bool
	Loop                    int
	BG                      uint32
	Frames                  []Frame
	ICC, EXIF, XMP          []byte
	HasICC, HasEXIF, HasXMP bool
	Order                   []string
}

const (
	FlagAnim  = 0x02
	FlagXMP   = 0x04
	FlagEXIF  = 0x08
	FlagAlpha = 0x10
	FlagICC   = 0x20
)

func le24(b []byte) int { return int(b[0]) | int(b[1])<<8 | int(b[2])<<16 }

// readChunks splits buf (positioned at file offset base) into chunks, strictly.
func readChunks(buf []byte, base int) ([]Chunk, error) {
	var out []Chunk
	pos := 0
	for pos < len(buf) {
		if len(buf)-pos < 8 {
			return nil, fmt.Errorf("offset %d: %d stray bytes, not a chunk header", base+pos, len(buf)-pos)
		}
		id := string(buf[pos : pos+4])
		sz := int(binary.LittleEndian.Uint32(buf[pos+4:]))
		if sz < 0 || pos+8+sz > len(buf) {
			return nil, fmt.Errorf("chunk %q at %d: size %d exceeds the enclosing data", id, base+pos, sz)
		}
		data := buf[pos+8 : pos+8+sz]
		next := pos + 8 + sz
		if sz&1 == 1 {
			if next >= len(buf) {
				return nil, fmt.Errorf("chunk %q at %d: odd size %d without pad byte", id, base+pos, sz)
			}
			if buf[next] != 0 {
				return nil, fmt.Errorf("chunk %q at %d: pad byte is %#x, must be 0", id, base+pos, buf[next])
			}
			next++
		}
		out = append(out, Chunk{ID: id, Off: base + pos, Data: data})
		pos = next
	}
	return out, nil
}

func parseBitstream(f *Frame, c Chunk) error {
	f.Bitstream = c.Data
	f.BitstreamID = c.ID
	if c.ID == "VP8L" {
		f.Lossless = true
		if len(c.Data) < 5 {
			return fmt.Errorf("VP8L chunk too short (%d)", len(c.Data))
		}
		if c.Data[0] != 0x2f {
			return fmt.Errorf("VP8L signature %#x", c.Data[0])
		}
		bits := binary.LittleEndian.Uint32(c.Data[1:5])
		f.BW = int(bits&0x3fff) + 1
		f.BH = int((bits>>14)&0x3fff) + 1
		f.VP8LAlpha = (bits>>28)&1 == 1
		if v := bits >> 29; v != 0 {
			return fmt.Errorf("VP8L version %d", v)
		}
		return nil
	}
	h, err := vp8hdr.Parse(c.Data)
	f.VP8 = h
	if err != nil {
		return err
	}
	if h.XScale != 0 || h.YScale != 0 {
		return fmt.Errorf("vp8: non-zero scaling bits %d/%d", h.XScale, h.YScale)
	}
	f.BW, f.BH = h.Width, h.Height
	return nil
}

// Parse validates data as exactly one well-formed WebP file.
func Parse(data []byte) (*File, error) {
	if len(data) < 12 {
		return nil, fmt.Errorf("file is %d bytes, shorter than the RIFF header", len(data))
	}
	if string(data[0:4]) != "RIFF" || string(data[8:12]) != "WEBP" {
		return nil, fmt.Errorf("bad RIFF/WEBP signature")
	}
	size := int(binary.LittleEndian.Uint32(data[4:8]))
	if size != len(data)-8 {
		return nil, fmt.Errorf("RIFF size field %d, but %d bytes follow it", size, len(data)-8)
	}
	if size&1 == 1 {
		return nil, fmt.Errorf("RIFF size %d is odd", size)
	}
	chunks, err := readChunks(data[12:], 12)
	if err != nil {
		return nil, err
	}
	if len(chunks) == 0 {
		return nil, fmt.Errorf("no chunks")
	}
	f := &File{Chunks: chunks, First: chunks[0].ID}
	for _, c := range chunks {
		f.Order = append(f.Order, c.ID)
	}
	switch f.First {
	case "VP8 ", "VP8L":
		if len(chunks) != 1 {
			return nil, fmt.Errorf("simple file has %d chunks %v, want exactly the image chunk", len(chunks), f.Order)
		}
		fr := Frame{}
		if err := parseBitstream(&fr, chunks[0]); err != nil {
			return nil, err
		}
		fr.W, fr.H = fr.BW, fr.BH
		f.CanvasW, f.CanvasH = fr.BW, fr.BH
		f.Frames = []Frame{fr}
		return f, nil
	case "VP8X":
	default:
		return nil, fmt.Errorf("first chunk %q", f.First)
	}
	x := chunks[0].Data
	if len(x) != 10 {
		return nil, fmt.Errorf("VP8X payload is %d bytes, must be 10", len(x))
	}
	f.HasVP8X = true
	f.Flags = x[0]
	if x[0]&^0x3e != 0 || x[1] != 0 || x[2] != 0 || x[3] != 0 {
		return nil, fmt.Errorf("VP8X reserved bits set: %x", x[0:4])
	}
	f.CanvasW, f.CanvasH = le24(x[4:7])+1, le24(x[7:10])+1
	if uint64(f.CanvasW)*uint64(f.CanvasH) > 0xffffffff {
		return nil, fmt.Errorf("canvas %dx%d exceeds 2^32-1 pixels", f.CanvasW, f.CanvasH)
	}
	f.Animated = f.Flags&FlagAnim != 0
	// order state machine: VP8X [ICCP] [ANIM] image [EXIF] [XMP ]; unknown chunks anywhere after VP8X
	stage := 0 // 0 after VP8X, 1 after ICCP, 2 after ANIM, 3 in image data, 4 after EXIF, 5 after XMP
	var pendingAlph *Chunk
	sawANIM := false
	stillDone := false
	for i := 1; i < len(chunks); i++ {
		c := chunks[i]
		switch c.ID {
		case "VP8X":
			return nil, fmt.Errorf("second VP8X chunk at %d", c.Off)
		case "ICCP":
			if stage > 0 {
				return nil, fmt.Errorf("ICCP at %d out of order (%v)", c.Off, f.Order)
			}
			if f.HasICC {
				return nil, fmt.Errorf("duplicate ICCP")
			}
			f.ICC, f.HasICC = c.Data, true
			stage = 1
		case "ANIM":
			if stage > 1 || sawANIM {
				return nil, fmt.Errorf("ANIM at %d out of order (%v)", c.Off, f.Order)
			}
			if len(c.Data) != 6 {
				return nil, fmt.Errorf("ANIM payload is %d bytes, must be 6", len(c.Data))
			}
			if !f.Animated {
				return nil, fmt.Errorf("ANIM chunk without animation flag")
			}
			f.BG = binary.LittleEndian.Uint32(c.Data[0:4])
			f.Loop = int(binary.LittleEndian.Uint16(c.Data[4:6]))
			sawANIM = true
			stage = 2
		case "ANMF":
			if !f.Animated || !sawANIM {
				return nil, fmt.Errorf("ANMF at %d without animation flag/ANIM chunk", c.Off)
			}
			if stage > 3 {
				return nil, fmt.Errorf("ANMF at %d after metadata (%v)", c.Off, f.Order)
			}
			stage = 3
			fr, err := parseANMF(c, f.CanvasW, f.CanvasH)
			if err != nil {
				return nil, fmt.Errorf("frame %d: %v", len(f.Frames), err)
			}
			f.Frames = append(f.Frames, *fr)
		case "ALPH":
			if f.Animated {
				return nil, fmt.Errorf("top-level ALPH in an animated file")
			}
			if stage > 2 || pendingAlph != nil || stillDone {
				return nil, fmt.Errorf("ALPH at %d out of order (%v)", c.Off, f.Order)
			}
			cc := c
			pendingAlph = &cc
			stage = 3
		case "VP8 ", "VP8L":
			if f.Animated {
				return nil, fmt.Errorf("top-level %q in an animated file", c.ID)
			}
			if stillDone || stage > 3 {
				return nil, fmt.Errorf("%q at %d out of order (%v)", c.ID, c.Off, f.Order)
			}
			fr := Frame{}
			if err := parseBitstream(&fr, c); err != nil {
				return nil, err
			}
			if pendingAlph != nil {
				if c.ID == "VP8L" {
					return nil, fmt.Errorf("ALPH chunk combined with VP8L")
				}
				fr.Alph, fr.HasAlph = pendingAlph.Data, true
				pendingAlph = nil
			}
			fr.W, fr.H = fr.BW, fr.BH
			if fr.BW != f.CanvasW || fr.BH != f.CanvasH {
				return nil, fmt.Errorf("still image %dx%d differs from canvas %dx%d", fr.BW, fr.BH, f.CanvasW, f.CanvasH)
			}
			f.Frames = append(f.Frames, fr)
			stillDone = true
			stage = 3
		case "EXIF":
			if len(f.Frames) == 0 || stage > 3 || f.HasEXIF {
				return nil, fmt.Errorf("EXIF at %d out of order (%v)", c.Off, f.Order)
			}
			f.EXIF, f.HasEXIF = c.Data, true
			stage = 4
		case "XMP ":
			if len(f.Frames) == 0 || stage > 4 || f.HasXMP {
				return nil, fmt.Errorf("XMP at %d out of order (%v)", c.Off, f.Order)
			}
			f.XMP, f.HasXMP = c.Data, true
			stage = 5
		default:
			// unknown chunk: allowed
		}
	}
	if pendingAlph != nil {
		return nil, fmt.Errorf("ALPH chunk without image chunk")
	}
	if len(f.Frames) == 0 {
		return nil, fmt.Errorf("no image data (%v)", f.Order)
	}
	// flags vs chunks
	if (f.Flags&FlagICC != 0) != f.HasICC {
		return nil, fmt.Errorf("ICC flag %v but ICCP chunk present=%v", f.Flags&FlagICC != 0, f.HasICC)
	}
	if (f.Flags&FlagEXIF != 0) != f.HasEXIF {
		return nil, fmt.Errorf("EXIF flag %v but EXIF chunk present=%v", f.Flags&FlagEXIF != 0, f.HasEXIF)
	}
	if (f.Flags&FlagXMP != 0) != f.HasXMP {
		return nil, fmt.Errorf("XMP flag %v but XMP chunk present=%v", f.Flags&FlagXMP != 0, f.HasXMP)
	}
	if f.Animated && !sawANIM {
		return nil, fmt.Errorf("animation flag without ANIM chunk")
	}
	anyAlpha := false
	for _, fr := range f.Frames {
		if fr.HasAlph || fr.VP8LAlpha {
			anyAlpha = true
		}
	}
	if (f.Flags&FlagAlpha != 0) != anyAlpha {
		return nil, fmt.Errorf("alpha flag %v but frames carry alpha=%v", f.Flags&FlagAlpha != 0, anyAlpha)
	}
	return f, nil
}

func parseANMF(c Chunk, cw, ch int) (*Frame, error) {
	d := c.Data
	if len(d) < 16 {
		return nil, fmt.Errorf("ANMF payload %d bytes < 16", len(d))
	}
	fr := &Frame{X: 2 * le24(d[0:3]), Y: 2 * le24(d[3:6]), W: le24(d[6:9]) + 1, H: le24(d[9:12]) + 1, Duration: le24(d[12:15])}
	fl := d[15]
	if fl&^3 != 0 {
		return nil, fmt.Errorf("ANMF reserved bits set: %#x", fl)
	}
	fr.DisposeBG = fl&1 != 0
	fr.BlendNone = fl&2 != 0
	if fr.X+fr.W > cw || fr.Y+fr.H > ch {
		return nil, fmt.Errorf("frame %dx%d at (%d,%d) outside canvas %dx%d", fr.W, fr.H, fr.X, fr.Y, cw, ch)
	}
	subs, err := readChunks(d[16:], c.Off+8+16)
	if err != nil {
		return nil, err
	}
	seenImage := false
	for _, s := range subs {
		switch s.ID {
		case "ALPH":
			if fr.HasAlph || seenImage {
				return nil, fmt.Errorf("ALPH sub-chunk out of order")
			}
			fr.Alph, fr.HasAlph = s.Data, true
		case "VP8 ", "VP8L":
			if seenImage {
				return nil, fmt.Errorf("two bitstreams in one frame")
			}
			if s.ID == "VP8L" && fr.HasAlph {
				return nil, fmt.Errorf("ALPH combined with VP8L")
			}
			if err := parseBitstream(fr, s); err != nil {
				return nil, err
			}
			seenImage = true
		case "ANMF", "ANIM", "VP8X", "ICCP", "EXIF", "XMP ":
			return nil, fmt.Errorf("%q inside ANMF", s.ID)
		default:
			fr.SubUnknown++
		}
	}
	if !seenImage {
		return nil, fmt.Errorf("frame without bitstream")
	}
	if fr.BW != fr.W || fr.BH != fr.H {
		return nil, fmt.Errorf("ANMF says %dx%d, bitstream says %dx%d", fr.W, fr.H, fr.BW, fr.BH)
	}
	return fr, nil
}

// DeclaredPixels is a tolerant header reader for hostile inputs: the largest picture/canvas
// area any header in data declares (used only to scale the resource bound of C05).
func DeclaredPixels(data []byte) uint64 {
	var max uint64
	upd := func(w, h int) {
		if a := uint64(w) * uint64(h); a > max {
			max = a
		}
	}
	for i := 0; i+8 <= len(data); i++ {
		switch string(data[i : i+4]) {
		case "VP8X":
			if i+18 <= len(data) {
				upd(le24(data[i+12:])+1, le24(data[i+15:])+1)
			}
		case "ANMF":
			if i+24 <= len(data) {
				upd(le24(data[i+14:])+1, le24(data[i+17:])+1)
			}
		case "VP8L":
			if i+13 <= len(data) {
				bits := binary.LittleEndian.Uint32(data[i+9:])
				upd(int(bits&0x3fff)+1, int((bits>>14)&0x3fff)+1)
			}
		case "VP8 ":
			if i+18 <= len(data) {
				upd(int(binary.LittleEndian.Uint16(data[i+14:]))&0x3fff, int(binary.LittleEndian.Uint16(data[i+16:]))&0x3fff)
			}
		}
	}
	return max
}
