// Copyright 2011 The Go Authors. All rights reserved.
// Use of this source code is governed by a BSD-style
// license that can be found in the LICENSE file.

package xvp8

// This file implements decoding DCT/WHT residual coefficients and
// reconstructing YCbCr data equal to predicted values plus residuals.
//
// There are 1*16*16 + 2*8*8 + 1*4*4 coefficients per macroblock:
//	- 1*16*16 luma DCT coefficients,
//	- 2*8*8 chroma DCT coefficients, and
//	- 1*4*4 luma WHT coefficients.
// Coefficients are read in lots of 16, and the later coefficients in each lot
// are often zero.
//
// The YCbCr data consists of 1*16*16 luma values and 2*8*8 chroma values,
// plus previously decoded values along the top and left borders. The combined
// values are laid out as a [1+16+1+8][32]uint8 so that vertically adjacent
// samples are 32 bytes apart. In detail, the layout is:
//
//	0 1 2 3 4 5 6 7  8 9 0 1 2 3 4 5  6 7 8 9 0 1 2 3  4 5 6 7 8 9 0 1
//	. . . . . . . a  b b b b b b b b  b b b b b b b b  c c c c . . . .	0
//	. . . . . . . d  Y Y Y Y Y Y Y Y  Y Y Y Y Y Y Y Y  . . . . . . . .	1
//	. . . . . . . d  Y Y Y Y Y Y Y Y  Y Y Y Y Y Y Y Y  . . . . . . . .	2
//	. . . . . . . d  Y Y Y Y Y Y Y Y  Y Y Y Y Y Y Y Y  . . . . . . . .	3
//	. . . . . . . d  Y Y Y Y Y Y Y Y  Y Y Y Y Y Y Y Y  c c c c . . . .	4
//	. . . . . . . d  Y Y Y Y Y Y Y Y  Y Y Y Y Y Y Y Y  . . . . . . . .	5
//	. . . . . . . d  Y Y Y Y Y Y Y Y  Y Y Y Y Y Y Y Y  . . . . . . . .	6
//	. . . . . . . d  Y Y Y Y Y Y Y Y  Y Y Y Y Y Y Y Y  . . . . . . . .	7
//	. . . . . . . d  Y Y Y Y Y Y Y Y  Y Y Y Y Y Y Y Y  c c c c . . . .	8
//	. . . . . . . d  Y Y Y Y Y Y Y Y  Y Y Y Y Y Y Y Y  . . . . . . . .	9
//	. . . . . . . d  Y Y Y Y Y Y Y Y  Y Y Y Y Y Y Y Y  . . . . . . . .	10
//	. . . . . . . d  Y Y Y Y Y Y Y Y  Y Y Y Y Y Y Y Y  . . . . . . . .	11
//	. . . . . . . d  Y Y Y Y Y Y Y Y  Y Y Y Y Y Y Y Y  c c c c . . . .	12
//	. . . . . . . d  Y Y Y Y Y Y Y Y  Y Y Y Y Y Y Y Y  . . . . . . . .	13
//	. . . . . . . d  Y Y Y Y Y Y Y Y  Y Y Y Y Y Y Y Y  . . . . . . . .	14
//	. . . . . . . d  Y Y Y Y Y Y Y Y  Y Y Y Y Y Y Y Y  . . . . . . . .	15
//	. . . . . . . d  Y Y Y Y Y Y Y Y  Y Y Y Y Y Y Y Y  . . . . . . . .	16
//	. . . . . . . e  f f f f f f f f  . . . . . . . g  h h h h h h h h	17
//	. . . . . . . i  B B B B B B B B  . . . . . . . j  R R R R R R R R	18
//	. . . . . . . i  B B B B B B B B  . . . . . . . j  R R R R R R R R	19
//	. . . . . . . i  B B B B B B B B  . . . . . . . j  R R R R R R R R	20
//	. . . . . . . i  B B B B B B B B  . . . . . . . j  R R R R R R R R	21
//	. . . . . . . i  B B B B B B B B  . . . . . . . j  R R R R R R R R	22
//	. . . . . . . i  B B B B B B B B  . . . . . . . j  R R R R R R R R	23
//	. . . . . . . i  B B B B B B B B  . . . . . . . j  R R R R R R R R	24
//	. . . . . . . i  B B B B B B B B  . . . . . . . j  R R R R R R R R	25
//
// Y, B and R are the reconstructed luma (Y) and chroma (B, R) values.
// The Y values are predicted (either as one 16x16 region or 16 4x4 regions)
// based on the row above's Y values (some combination of {abc} or {dYC}) and
// the column left's Y values (either {ad} or {bY}). Similarly, B and R values
// are predicted on the row above and column left of their respective 8x8
// region: {efi} for B, {ghj} for R.
//
// For uppermost macroblocks (i.e. those with mby == 0), the {abcefgh} values
// are initialized to 0x81. Otherwise, they are copied from the bottom row of
// the macroblock above. The {c} values are then duplicated from row 0 to rows
// 4, 8 and 12 of the ybr workspace.
// Similarly, for leftmost macroblocks (i.e. those with mbx == 0), the {adeigj}
// values are initialized to 0x7f. Otherwise, they are copied from the right
// column of the macroblock to the left.
// For the top-left macroblock (with mby == 0 && mbx == 0), {aeg} is 0x81.
//
// When moving from one macroblock to the next horizontally, the {adeigj}
// values can simply be copied from the workspace to itself, shifted by 8 or
// 16 columns. When moving from one macroblock to the next vertically,
// filtering can occur and hence the row values have to be copied from the
// post-filtered image instead of the pre-filtered workspace.

const (
	bCoeffBase   = 1*16*16 + 0*8*8
	rCoeffBase   = 1*16*16 + 1*8*8
	whtCoeffBase = 1*16*16 + 2*8*8
)

const (
	ybrYX = 8
	ybrYY = 1
	ybrBX = 8
	ybrBY = 18
	ybrRX = 24
	ybrRY = 18
)

// prepareYBR prepares the {abcdefghij} elements of ybr.
func (d *Decoder) prepareYBR(mbx, mby int) {
	if mbx == 0 {
		for y := 0; y < 17; y++ {
			d.ybr[y][7] = 0x81
		}
		for y := 17; y < 26; y++ {
			d.ybr[y][7] = 0x81
			d.ybr[y][23] = 0x81
		}
	} else {
		for y := 0; y < 17; y++ {
			d.ybr[y][7] = d.ybr[y][7+16]
		}
		for y := 17; y < 26; y++ {
			d.ybr[y][7] = d.ybr[y][15]
			d.ybr[y][23] = d.ybr[y][31]
		}
	}
	if mby == 0 {
		for x := 7; x < 28; x++ {
			d.ybr[0][x] = 0x7f
		}
		for x := 7; x < 16; x++ {
			d.ybr[17][x] = 0x7f
		}
		for x := 23; x < 32; x++ {
			d.ybr[17][x] = 0x7f
		}
	} else {
		for i := 0; i < 16; i++ {
			d.ybr[0][8+i] = d.img.Y[(16*mby-1)*d.img.YStride+16*mbx+i]
		}
		for i := 0; i < 8; i++ {
			d.ybr[17][8+i] = d.img.Cb[(8*mby-1)*d.img.CStride+8*mbx+i]
		}
		for i := 0; i < 8; i++ {
			d.ybr[17][24+i] = d.img.Cr[(8*mby-1)*d.img.CStride+8*mbx+i]
		}
		if mbx == d.mbw-1 {
			for i := 16; i < 20; i++ {
				d.ybr[0][8+i] = d.img.Y[(16*mby-1)*d.img.YStride+16*mbx+15]
			}
		} else {
			for i := 16; i < 20; i++ {
				d.ybr[0][8+i] = d.img.Y[(16*mby-1)*d.img.YStride+16*mbx+i]
			}
		}
	}
	for y := 4; y < 16; y += 4 {
		d.ybr[y][24] = d.ybr[0][24]
		d.ybr[y][25] = d.ybr[0][25]
		d.ybr[y][26] = d.ybr[0][26]
		d.ybr[y][27] = d.ybr[0][27]
	}
}

// btou converts a bool to a 0/1 value.
func btou(b bool) uint8 {
	if b {
		return 1
	}
	return 0
}

// pack packs four 0/1 values into four bits of a uint32.
func pack(x [4]uint8, shift int) uint32 {
	u := uint32(x[0])<<0 | uint32(x[1])<<1 | uint32(x[2])<<2 | uint32(x[3])<<3
	return u << uint(shift)
}

// unpack unpacks four 0/1 values from a four-bit value.
var unpack = [16][4]uint8{
	{0, 0, 0, 0},
	{1, 0, 0, 0},
	{0, 1, 0, 0},
	{1, 1, 0, 0},
	{0, 0, 1, 0},
	{1, 0, 1, 0},
	{0, 1, 1, 0},
	{1, 1, 1, 0},
	{0, 0, 0, 1},
	{1, 0, 0, 1},
	{0, 1, 0, 1},
	{1, 1, 0, 1},
	{0, 0, 1, 1},
	{1, 0, 1, 1},
	{0, 1, 1, 1},
	{1, 1, 1, 1},
}

var (
	// The mapping from 4x4 region position to band is specified in section 13.3.
	bands = [17]uint8{0, 1, 2, 3, 6, 4, 5, 6, 6, 6, 6, 6, 6, 6, 6, 7, 0}
	// Category probabilties are specified in section 13.2.
	// Decoding categories 1 and 2 are done inline.
	cat3456 = [4][12]uint8{
		{173, 148, 140, 0, 0, 0, 0, 0, 0, 0, 0, 0},
		{176, 155, 140, 135, 0, 0, 0, 0, 0, 0, 0, 0},
		{180, 157, 141, 134, 130, 0, 0, 0, 0, 0, 0, 0},
		{254, 254, 243, 230, 196, 177, 153, 140, 133, 130, 129, 0},
	}
	// The zigzag order is:
	//	0  1  5  6
	//	2  4  7 12
	//	3  8 11 13
	//	9 10 14 15
	zigzag = [16]uint8{0, 1, 4, 8, 5, 2, 3, 6, 9, 12, 13, 10, 7, 11, 14, 15}
)

// parseResiduals4 parses a 4x4 region of residual coefficients, as specified
// in section 13.3, and returns a 0/1 value indicating whether there was at
// least one non-zero coefficient.
// r is the partition to read bits from.
// plane and context describe which token probability table to use. context is
// either 0, 1 or 2, and equals how many of the macroblock left and macroblock
// above have non-zero coefficients.
// quant are the DC/AC quantization factors.
// skipFirstCoeff is whether the DC coefficient has already been parsed.
// coeffBase is the base index of d.coeff to write to.
func (d *Decoder) parseResiduals4(r *partition, plane int, context uint8, quant [2]uint16, skipFirstCoeff bool, coeffBase int) uint8 {
	prob, n := &d.tokenProb[plane], 0
	if skipFirstCoeff {
		n = 1
	}
	p := prob[bands[n]][context]
	if !r.readBit(p[0]) {
		return 0
	}
	for n != 16 {
		n++
		if !r.readBit(p[1]) {
			p = prob[bands[n]][0]
			continue
		}
		var v uint32
		if !r.readBit(p[2]) {
			v = 1
			p = prob[bands[n]][1]
		} else {
			if !r.readBit(p[3]) {
				if !r.readBit(p[4]) {
					v = 2
				} else {
					v = 3 + r.readUint(p[5], 1)
				}
			} else if !r.readBit(p[6]) {
				if !r.readBit(p[7]) {
					// Category 1.
					v = 5 + r.readUint(159, 1)
				} else {
					// Category 2.
					v = 7 + 2*r.readUint(165, 1) + r.readUint(145, 1)
				}
			} else {
				// Categories 3, 4, 5 or 6.
				b1 := r.readUint(p[8], 1)
				b0 := r.readUint(p[9+b1], 1)
				cat := 2*b1 + b0
				tab := &cat3456[cat]
				v = 0
				for i := 0; tab[i] != 0; i++ {
					v *= 2
					v += r.readUint(tab[i], 1)
				}
				v += 3 + (8 << cat)
			}
			p = prob[bands[n]][2]
		}
		z := zigzag[n-1]
		c := int32(v) * int32(quant[btou(z > 0)])
		if r.readBit(uniformProb) {
			c = -c
		}
		d.coeff[coeffBase+int(z)] = int16(c)
		if n == 16 || !r.readBit(p[0]) {
			return 1
		}
	}
	return 1
}

// parseResiduals parses the residuals and returns whether inner loop filtering
// should be skipped for this macroblock.
func (d *Decoder) parseResiduals(mbx, mby int) (skip bool) {
	partition := &d.op[mby&(d.nOP-1)]
	plane := planeY1SansY2
	quant := &d.quant[d.segment]

	// Parse the DC coefficient of each 4x4 luma region.
	if d.usePredY16 {
		nz := d.parseResiduals4(partition, planeY2, d.leftMB.nzY16+d.upMB[mbx].nzY16, quant.y2, false, whtCoeffBase)
		d.leftMB.nzY16 = nz
		d.upMB[mbx].nzY16 = nz
		d.inverseWHT16()
		plane = planeY1WithY2
	}

	var (
		nzDC, nzAC         [4]uint8
		nzDCMask, nzACMask uint32
		coeffBase          int
	)

	// Parse the luma coefficients.
	lnz := unpack[d.leftMB.nzMask&0x0f]
	unz := unpack[d.upMB[mbx].nzMask&0x0f]
	for y := 0; y < 4; y++ {
		nz := lnz[y]
		for x := 0; x < 4; x++ {
			nz = d.parseResiduals4(partition, plane, nz+unz[x], quant.y1, d.usePredY16, coeffBase)
			unz[x] = nz
			nzAC[x] = nz
			nzDC[x] = btou(d.coeff[coeffBase] != 0)
			coeffBase += 16
		}
		lnz[y] = nz
		nzDCMask |= pack(nzDC, y*4)
		nzACMask |= pack(nzAC, y*4)
	}
	lnzMask := pack(lnz, 0)
	unzMask := pack(unz, 0)

	// Parse the chroma coefficients.
	lnz = unpack[d.leftMB.nzMask>>4]
	unz = unpack[d.upMB[mbx].nzMask>>4]
	for c := 0; c < 4; c += 2 {
		for y := 0; y < 2; y++ {
			nz := lnz[y+c]
			for x := 0; x < 2; x++ {
				nz = d.parseResiduals4(partition, planeUV, nz+unz[x+c], quant.uv, false, coeffBase)
				unz[x+c] = nz
				nzAC[y*2+x] = nz
				nzDC[y*2+x] = btou(d.coeff[coeffBase] != 0)
				coeffBase += 16
			}
			lnz[y+c] = nz
		}
		nzDCMask |= pack(nzDC, 16+c*2)
		nzACMask |= pack(nzAC, 16+c*2)
	}
	lnzMask |= pack(lnz, 4)
	unzMask |= pack(unz, 4)

	// Save decoder state.
	d.leftMB.nzMask = uint8(lnzMask)
	d.upMB[mbx].nzMask = uint8(unzMask)
	d.nzDCMask = nzDCMask
	d.nzACMask = nzACMask

	// Section 15.1 of the spec says that "Steps 2 and 4 [of the loop filter]
	// are skipped... [if] there is no DCT coefficient coded for the whole
	// macroblock."
	return nzDCMask == 0 && nzACMask == 0
}

// reconstructMacroblock applies the predictor functions and adds the inverse-
// DCT transformed residuals to recover the YCbCr data.
// DebugMB (added for /verif, nil by default) is shown every macroblock's coefficients before
// reconstruction; used when analysing a disagreement between decoders.
var DebugMB func(mbx, mby int, predY16 bool, coeff []int16, nzDCMask, nzACMask uint32)

func (d *Decoder) reconstructMacroblock(mbx, mby int) {
	if DebugMB != nil {
		DebugMB(mbx, mby, d.usePredY16, d.coeff[:], d.nzDCMask, d.nzACMask)
	}
	if d.usePredY16 {
		p := checkTopLeftPred(mbx, mby, d.predY16)
		predFunc16[p](d, 1, 8)
		for j := 0; j < 4; j++ {
			for i := 0; i < 4; i++ {
				n := 4*j + i
				y := 4*j + 1
				x := 4*i + 8
				mask := uint32(1) << uint(n)
				if d.nzACMask&mask != 0 {
					d.inverseDCT4(y, x, 16*n)
				} else if d.nzDCMask&mask != 0 {
					d.inverseDCT4DCOnly(y, x, 16*n)
				}
			}
		}
	} else {
		for j := 0; j < 4; j++ {
			for i := 0; i < 4; i++ {
				n := 4*j + i
				y := 4*j + 1
				x := 4*i + 8
				predFunc4[d.predY4[j][i]](d, y, x)
				mask := uint32(1) << uint(n)
				if d.nzACMask&mask != 0 {
					d.inverseDCT4(y, x, 16*n)
				} else if d.nzDCMask&mask != 0 {
					d.inverseDCT4DCOnly(y, x, 16*n)
				}
			}
		}
	}
	p := checkTopLeftPred(mbx, mby, d.predC8)
	predFunc8[p](d, ybrBY, ybrBX)
	if d.nzACMask&0x0f0000 != 0 {
		d.inverseDCT8(ybrBY, ybrBX, bCoeffBase)
	} else if d.nzDCMask&0x0f0000 != 0 {
		d.inverseDCT8DCOnly(ybrBY, ybrBX, bCoeffBase)
	}
	predFunc8[p](d, ybrRY, ybrRX)
	if d.nzACMask&0xf00000 != 0 {
		d.inverseDCT8(ybrRY, ybrRX, rCoeffBase)
	} else if d.nzDCMask&0xf00000 != 0 {
		d.inverseDCT8DCOnly(ybrRY, ybrRX, rCoeffBase)
	}
}

// reconstruct reconstructs one macroblock and returns whether inner loop
// filtering should be skipped for it.
func (d *Decoder) reconstruct(mbx, mby int) (skip bool) {
	if d.segmentHeader.updateMap {
		if !d.fp.readBit(d.segmentHeader.prob[0]) {
			d.segment = int(d.fp.readUint(d.segmentHeader.prob[1], 1))
		} else {
			d.segment = int(d.fp.readUint(d.segmentHeader.prob[2], 1)) + 2
		}
	}
	if d.useSkipProb {
		skip = d.fp.readBit(d.skipProb)
	}
	// Prepare the workspace.
	for i := range d.coeff {
		d.coeff[i] = 0
	}
	d.prepareYBR(mbx, mby)
	// Parse the predictor modes.
	d.usePredY16 = d.fp.readBit(145)
	if d.usePredY16 {
		d.parsePredModeY16(mbx)
	} else {
		d.parsePredModeY4(mbx)
	}
	d.parsePredModeC8()
	// Parse the residuals.
	if !skip {
		skip = d.parseResiduals(mbx, mby)
	} else {
		if d.usePredY16 {
			d.leftMB.nzY16 = 0
			d.upMB[mbx].nzY16 = 0
		}
		d.leftMB.nzMask = 0
		d.upMB[mbx].nzMask = 0
		d.nzDCMask = 0
		d.nzACMask = 0
	}
	// Reconstruct the YCbCr data and copy it to the image.
	d.reconstructMacroblock(mbx, mby)
	for i, y := (mby*d.img.YStride+mbx)*16, 0; y < 16; i, y = i+d.img.YStride, y+1 {
		copy(d.img.Y[i:i+16], d.ybr[ybrYY+y][ybrYX:ybrYX+16])
	}
	for i, y := (mby*d.img.CStride+mbx)*8, 0; y < 8; i, y = i+d.img.CStride, y+1 {
		copy(d.img.Cb[i:i+8], d.ybr[ybrBY+y][ybrBX:ybrBX+8])
		copy(d.img.Cr[i:i+8], d.ybr[ybrRY+y][ybrRX:ybrRX+8])
	}
	return skip
}
