// Package yuvref is a from-the-documentation reference for the WebP decoder's YUV->RGB
// conversion with "fancy" (9,3,3,1)/16 chroma upsampling, used as a second witness next to
// libwebp. Plain scalar code, no relation to the package under test.
package yuvref

func multHi(v, c int) int { return (v * c) >> 8 }

func clip8(v int) uint8 {
	const mask2 = (256 << 6) - 1
	if v&^mask2 == 0 {
		return uint8(v >> 6)
	}
	if v < 0 {
		return 0
	}
	return 255
}

func YUVToRGB(y, u, v uint8) (r, g, b uint8) {
	yy := multHi(int(y), 19077)
	r = clip8(yy + multHi(int(v), 26149) - 14234)
	g = clip8(yy - multHi(int(u), 6419) - multHi(int(v), 13320) + 8708)
	b = clip8(yy + multHi(int(u), 33050) - 17685)
	return
}

// FancyRGB converts tight 4:2:0 planes (Y: w*h, U/V: cw*ch with cw=(w+1)/2) to tight RGB (w*h*3).
// Each output pixel's chroma is the (9,3,3,1)/16 blend of the four nearest chroma samples, with
// libwebp's two-step rounding; edges replicate.
func FancyRGB(yp, up, vp []byte, w, h int) []byte {
	cw, ch := (w+1)/2, (h+1)/2
	out := make([]byte, w*h*3)
	at := func(p []byte, cx, cy int) int {
		if cx < 0 {
			cx = 0
		}
		if cx >= cw {
			cx = cw - 1
		}
		if cy < 0 {
			cy = 0
		}
		if cy >= ch {
			cy = ch - 1
		}
		return int(p[cy*cw+cx])
	}
	// chroma for luma pixel (x,y): nearest sample (cx,cy)=(x/2,y/2); horizontal neighbour is
	// cx-1 for even x (x>0) else cx+1; vertical neighbour cy-1 for even y else cy+1.
	samp := func(p []byte, x, y int) uint8 {
		cx, cy := x>>1, y>>1
		nx, ny := cx+1, cy+1
		if x&1 == 0 {
			nx = cx - 1
		}
		if y&1 == 0 {
			ny = cy - 1
		}
		a := at(p, cx, cy) // nearest
		b := at(p, nx, cy) // horizontal neighbour
		c := at(p, cx, ny) // vertical neighbour
		d := at(p, nx, ny) // diagonal
		// libwebp: avg = a+b+c+d+8; diag(nearest,diagonal) = (avg + 2*(a+d))>>3 ; result = (diag_other + nearest)>>1
		// where for a pixel whose nearest sample is `a`, the blend is (diagBC + a) >> 1 with
		// diagBC = (a+b+c+d+8 + 2*(b+c)) >> 3.
		// At the left/right picture edge libwebp uses (3*a + c + 2) >> 2 (no horizontal neighbour).
		if (x == 0) || (x == w-1 && w&1 == 0) {
			return uint8((3*a + c + 2) >> 2)
		}
		diag := (a + b + c + d + 8 + 2*(b+c)) >> 3
		return uint8((diag + a) >> 1)
	}
	for y := 0; y < h; y++ {
		for x := 0; x < w; x++ {
			u := samp(up, x, y)
			v := samp(vp, x, y)
			r, g, b := YUVToRGB(yp[y*w+x], u, v)
			o := (y*w + x) * 3
			out[o], out[o+1], out[o+2] = r, g, b
		}
	}
	return out
}
