// Package vp8lstrict is /verif's own strict syntax validator for VP8L bitstreams. It entropy-decodes a
// stream exactly as the WebP lossless specification describes and rejects everything the
// specification does not clearly allow - also constructs that lenient decoders accept in
// different ways (a two-symbol simple code naming the same symbol twice, a simple-code symbol
// outside its alphabet, incomplete or over-subscribed prefix codes, reads past the end of the
// data, backward references reaching before the first pixel or past the last one). It is used as
// a *domain gate*: bytes it accepts are "syntactically valid VP8L" for the purposes of C03; what they
// decode to is still decided by the reference decoders. It applies no inverse transform.
package vp8lstrict

import (
	"errors"
	"fmt"
)

type bitReader struct {
	b   []byte
	pos int // bit position
}

var errEOF = errors.New("vp8lstrict: read past the end of the data")

func (r *bitReader) read(n int) (uint32, error) {
	var v uint32
	for i := 0; i < n; i++ {
		byteIdx := r.pos >> 3
		if byteIdx >= len(r.b) {
			return 0, errEOF
		}
		bit := (r.b[byteIdx] >> uint(r.pos&7)) & 1
		v |= uint32(bit) << uint(i)
		r.pos++
	}
	return v, nil
}

// code is a canonical prefix code.
type code struct {
	single   int // >= 0: the only symbol (zero-length codewords)
	count    [16]int
	symbols  []int // sorted by (length, symbol)
	firstSym [16]int
}

func buildCode(lens []int) (*code, error) {
	c := &code{single: -1}
	n := 0
	last := -1
	for s, l := range lens {
		if l < 0 || l > 15 {
			return nil, fmt.Errorf("vp8lstrict: code length %d", l)
		}
		if l > 0 {
			c.count[l]++
			n++
			last = s
		}
	}
	if n == 0 {
		return nil, errors.New("vp8lstrict: prefix code without symbols")
	}
	if n == 1 {
		c.single = last
		return c, nil
	}
	// Kraft sum must be exactly one
	left := 1
	for l := 1; l <= 15; l++ {
		left <<= 1
		left -= c.count[l]
		if left < 0 {
			return nil, errors.New("vp8lstrict: over-subscribed prefix code")
		}
	}
	if left != 0 {
		return nil, errors.New("vp8lstrict: incomplete prefix code")
	}
	off := 0
	for l := 1; l <= 15; l++ {
		c.firstSym[l] = off
		off += c.count[l]
	}
	c.symbols = make([]int, n)
	next := c.firstSym
	for s, l := range lens {
		if l > 0 {
			c.symbols[next[l]] = s
			next[l]++
		}
	}
	return c, nil
}

func (c *code) decode(r *bitReader) (int, error) {
	if c.single >= 0 {
		return c.single, nil
	}
	codeVal, first := 0, 0
	for l := 1; l <= 15; l++ {
		b, err := r.read(1)
		if err != nil {
			return 0, err
		}
		codeVal = codeVal<<1 | int(b)
		if codeVal-first < c.count[l] {
			return c.symbols[c.firstSym[l]+codeVal-first], nil
		}
		first = (first + c.count[l]) << 1
	}
	return 0, errors.New("vp8lstrict: invalid codeword")
}

var codeLengthOrder = [19]int{17, 18, 0, 1, 2, 3, 4, 5, 16, 6, 7, 8, 9, 10, 11, 12, 13, 14, 15}

func readCode(r *bitReader, alphabet int) (*code, error) {
	simple, err := r.read(1)
	if err != nil {
		return nil, err
	}
	lens := make([]int, alphabet)
	if simple == 1 {
		n, err := r.read(1)
		if err != nil {
			return nil, err
		}
		is8, err := r.read(1)
		if err != nil {
			return nil, err
		}
		nb := 1
		if is8 == 1 {
			nb = 8
		}
		s0, err := r.read(nb)
		if err != nil {
			return nil, err
		}
		if int(s0) >= alphabet {
			return nil, errors.New("vp8lstrict: simple-code symbol outside the alphabet")
		}
		lens[s0] = 1
		if n == 1 {
			s1, err := r.read(8)
			if err != nil {
				return nil, err
			}
			if int(s1) >= alphabet {
				return nil, errors.New("vp8lstrict: simple-code symbol outside the alphabet")
			}
			if s1 == s0 {
				return nil, errors.New("vp8lstrict: two-symbol simple code names one symbol twice")
			}
			lens[s1] = 1
		}
		return buildCode(lens)
	}
	nc, err := r.read(4)
	if err != nil {
		return nil, err
	}
	numCodes := int(nc) + 4
	if numCodes > 19 {
		return nil, errors.New("vp8lstrict: more than 19 code-length codes")
	}
	var cl [19]int
	for i := 0; i < numCodes; i++ {
		v, err := r.read(3)
		if err != nil {
			return nil, err
		}
		cl[codeLengthOrder[i]] = int(v)
	}
	clCode, err := buildCode(cl[:])
	if err != nil {
		return nil, fmt.Errorf("code-length code: %w", err)
	}
	maxSymbol := alphabet
	useMax, err := r.read(1)
	if err != nil {
		return nil, err
	}
	if useMax == 1 {
		k, err := r.read(3)
		if err != nil {
			return nil, err
		}
		nbits := 2 + 2*int(k)
		v, err := r.read(nbits)
		if err != nil {
			return nil, err
		}
		maxSymbol = 2 + int(v)
		if maxSymbol > alphabet {
			return nil, errors.New("vp8lstrict: max_symbol larger than the alphabet")
		}
	}
	sym, prev := 0, 8
	for sym < alphabet {
		if maxSymbol == 0 {
			break
		}
		maxSymbol--
		t, err := clCode.decode(r)
		if err != nil {
			return nil, err
		}
		switch {
		case t < 16:
			lens[sym] = t
			sym++
			if t != 0 {
				prev = t
			}
		default:
			var rep, val int
			switch t {
			case 16:
				x, err := r.read(2)
				if err != nil {
					return nil, err
				}
				rep, val = 3+int(x), prev
			case 17:
				x, err := r.read(3)
				if err != nil {
					return nil, err
				}
				rep, val = 3+int(x), 0
			default:
				x, err := r.read(7)
				if err != nil {
					return nil, err
				}
				rep, val = 11+int(x), 0
			}
			if sym+rep > alphabet {
				return nil, errors.New("vp8lstrict: code-length repeat runs past the alphabet")
			}
			for i := 0; i < rep; i++ {
				lens[sym] = val
				sym++
			}
		}
	}
	return buildCode(lens)
}

type group struct{ g, r, b, a, d *code }

func subsample(size, bits int) int { return (size + (1 << uint(bits)) - 1) >> uint(bits) }

type validator struct {
	r       *bitReader
	distMap [120][2]int
	maxPix  int
}

func prefixValue(r *bitReader, sym int) (int, error) {
	if sym < 4 {
		return sym + 1, nil
	}
	extra := (sym - 2) >> 1
	off := (2 + (sym & 1)) << uint(extra)
	v, err := r.read(extra)
	if err != nil {
		return 0, err
	}
	return off + int(v) + 1, nil
}

func (v *validator) imageStream(xs, ys int, level0 bool) ([]uint32, error) {
	r := v.r
	if xs <= 0 || ys <= 0 || xs*ys > v.maxPix {
		return nil, fmt.Errorf("vp8lstrict: image of %dx%d pixels is above the caller's limit", xs, ys)
	}
	cacheSize, cacheBits := 0, 0
	c, err := r.read(1)
	if err != nil {
		return nil, err
	}
	if c == 1 {
		b, err := r.read(4)
		if err != nil {
			return nil, err
		}
		if b < 1 || b > 11 {
			return nil, fmt.Errorf("vp8lstrict: colour cache bits %d", b)
		}
		cacheBits = int(b)
		cacheSize = 1 << b
	}
	groups := 1
	var meta []uint32
	metaBits, mw := 0, 0
	if level0 {
		m, err := r.read(1)
		if err != nil {
			return nil, err
		}
		if m == 1 {
			b, err := r.read(3)
			if err != nil {
				return nil, err
			}
			metaBits = int(b) + 2
			mw = subsample(xs, metaBits)
			meta, err = v.imageStream(mw, subsample(ys, metaBits), false)
			if err != nil {
				return nil, err
			}
			for _, p := range meta {
				if g := int(p>>8) & 0xffff; g+1 > groups {
					groups = g + 1
				}
			}
		}
	}
	if groups > 4096 {
		return nil, errors.New("vp8lstrict: more prefix-code groups than the caller's limit")
	}
	gs := make([]group, groups)
	for i := range gs {
		var e error
		read := func(alphabet int) *code {
			if e != nil {
				return nil
			}
			var cd *code
			cd, e = readCode(r, alphabet)
			return cd
		}
		gs[i] = group{read(256 + 24 + cacheSize), read(256), read(256), read(256), read(40)}
		if e != nil {
			return nil, e
		}
	}
	total := xs * ys
	pix := make([]uint32, total)
	var cache []uint32
	if cacheSize > 0 {
		cache = make([]uint32, cacheSize)
	}
	insert := func(p uint32) {
		if cacheSize > 0 {
			cache[(p*0x1e35a7bd)>>uint(32-cacheBits)] = p
		}
	}
	for pos := 0; pos < total; {
		g := &gs[0]
		if meta != nil {
			x, y := pos%xs, pos/xs
			g = &gs[int(meta[(y>>uint(metaBits))*mw+(x>>uint(metaBits))]>>8)&0xffff]
		}
		s, err := g.g.decode(r)
		if err != nil {
			return nil, err
		}
		switch {
		case s < 256:
			rr, err := g.r.decode(r)
			if err != nil {
				return nil, err
			}
			bb, err := g.b.decode(r)
			if err != nil {
				return nil, err
			}
			aa, err := g.a.decode(r)
			if err != nil {
				return nil, err
			}
			p := uint32(aa)<<24 | uint32(rr)<<16 | uint32(s)<<8 | uint32(bb)
			pix[pos] = p
			insert(p)
			pos++
		case s < 256+24:
			length, err := prefixValue(r, s-256)
			if err != nil {
				return nil, err
			}
			ds, err := g.d.decode(r)
			if err != nil {
				return nil, err
			}
			dcode, err := prefixValue(r, ds)
			if err != nil {
				return nil, err
			}
			dist := dcode - 120
			if dcode <= 120 {
				m := v.distMap[dcode-1]
				dist = m[0] + m[1]*xs
				if dist < 1 {
					dist = 1
				}
			}
			if dist > pos {
				return nil, errors.New("vp8lstrict: backward reference reaches before the first pixel")
			}
			if pos+length > total {
				return nil, errors.New("vp8lstrict: backward reference runs past the last pixel")
			}
			for i := 0; i < length; i++ {
				pix[pos] = pix[pos-dist]
				insert(pix[pos])
				pos++
			}
		default:
			idx := s - 256 - 24
			if idx >= cacheSize {
				return nil, errors.New("vp8lstrict: colour cache index outside the cache")
			}
			pix[pos] = cache[idx]
			insert(pix[pos])
			pos++
		}
	}
	return pix, nil
}

// Validate reports whether b is a syntactically valid VP8L bitstream under the strict reading
// described in the package comment. distMap is the specification's table of the 120 short
// distance codes ((dx,dy) pairs); maxPixels bounds the work.
func Validate(b []byte, distMap [120][2]int, maxPixels int) error {
	v := &validator{r: &bitReader{b: b}, distMap: distMap, maxPix: maxPixels}
	r := v.r
	sig, err := r.read(8)
	if err != nil {
		return err
	}
	if sig != 0x2f {
		return errors.New("vp8lstrict: bad signature")
	}
	w, err := r.read(14)
	if err != nil {
		return err
	}
	h, err := r.read(14)
	if err != nil {
		return err
	}
	if _, err := r.read(1); err != nil { // alpha hint
		return err
	}
	ver, err := r.read(3)
	if err != nil {
		return err
	}
	if ver != 0 {
		return errors.New("vp8lstrict: version is not 0")
	}
	xs, ys := int(w)+1, int(h)+1
	seen := [4]bool{}
	for {
		more, err := r.read(1)
		if err != nil {
			return err
		}
		if more == 0 {
			break
		}
		ty, err := r.read(2)
		if err != nil {
			return err
		}
		if seen[ty] {
			return errors.New("vp8lstrict: transform used twice")
		}
		seen[ty] = true
		switch ty {
		case 0, 1:
			b, err := r.read(3)
			if err != nil {
				return err
			}
			bits := int(b) + 2
			sub, err := v.imageStream(subsample(xs, bits), subsample(ys, bits), false)
			if err != nil {
				return err
			}
			if ty == 0 {
				for _, p := range sub {
					if (p>>8)&0xff > 13 {
						return errors.New("vp8lstrict: predictor mode above 13 (the specification defines 0..13)")
					}
				}
			}
		case 3:
			n, err := r.read(8)
			if err != nil {
				return err
			}
			nc := int(n) + 1
			if _, err := v.imageStream(nc, 1, false); err != nil {
				return err
			}
			bits := 0
			switch {
			case nc <= 2:
				bits = 3
			case nc <= 4:
				bits = 2
			case nc <= 16:
				bits = 1
			}
			xs = subsample(xs, bits)
		}
	}
	_, err = v.imageStream(xs, ys, true)
	return err
}
