// Copyright 2014 The Go Authors. All rights reserved.
// Use of this source code is governed by a BSD-style
// license that can be found in the LICENSE file.

// Package vp8l implements a decoder for the VP8L lossless image format.
//
// The VP8L specification is at:
// https://developers.google.com/speed/webp/docs/riff_container
package xvp8l

import (
	"bufio"
	"errors"
	"image"
	"image/color"
	"io"
)

var (
	errInvalidCodeLengths = errors.New("vp8l: invalid code lengths")
	errInvalidHuffmanTree = errors.New("vp8l: invalid Huffman tree")
)

// colorCacheMultiplier is the multiplier used for the color cache hash
// function, specified in section 4.2.3.
const colorCacheMultiplier = 0x1e35a7bd

// distanceMapTable is the look-up table for distanceMap.
var distanceMapTable = [120]uint8{
	0x18, 0x07, 0x17, 0x19, 0x28, 0x06, 0x27, 0x29, 0x16, 0x1a,
	0x26, 0x2a, 0x38, 0x05, 0x37, 0x39, 0x15, 0x1b, 0x36, 0x3a,
	0x25, 0x2b, 0x48, 0x04, 0x47, 0x49, 0x14, 0x1c, 0x35, 0x3b,
	0x46, 0x4a, 0x24, 0x2c, 0x58, 0x45, 0x4b, 0x34, 0x3c, 0x03,
	0x57, 0x59, 0x13, 0x1d, 0x56, 0x5a, 0x23, 0x2d, 0x44, 0x4c,
	0x55, 0x5b, 0x33, 0x3d, 0x68, 0x02, 0x67, 0x69, 0x12, 0x1e,
	0x66, 0x6a, 0x22, 0x2e, 0x54, 0x5c, 0x43, 0x4d, 0x65, 0x6b,
	0x32, 0x3e, 0x78, 0x01, 0x77, 0x79, 0x53, 0x5d, 0x11, 0x1f,
	0x64, 0x6c, 0x42, 0x4e, 0x76, 0x7a, 0x21, 0x2f, 0x75, 0x7b,
	0x31, 0x3f, 0x63, 0x6d, 0x52, 0x5e, 0x00, 0x74, 0x7c, 0x41,
	0x4f, 0x10, 0x20, 0x62, 0x6e, 0x30, 0x73, 0x7d, 0x51, 0x5f,
	0x40, 0x72, 0x7e, 0x61, 0x6f, 0x50, 0x71, 0x7f, 0x60, 0x70,
}

// distanceMap maps a LZ77 backwards reference distance to a two-dimensional
// pixel offset, specified in section 4.2.2.
func distanceMap(w int32, code uint32) int32 {
	if int32(code) > int32(len(distanceMapTable)) {
		return int32(code) - int32(len(distanceMapTable))
	}
	distCode := int32(distanceMapTable[code-1])
	yOffset := distCode >> 4
	xOffset := 8 - distCode&0xf
	if d := yOffset*w + xOffset; d >= 1 {
		return d
	}
	return 1
}

// decoder holds the bit-stream for a VP8L image.
type decoder struct {
	r     io.ByteReader
	bits  uint32
	nBits uint32
}

// read reads the next n bits from the decoder's bit-stream.
func (d *decoder) read(n uint32) (uint32, error) {
	for d.nBits < n {
		c, err := d.r.ReadByte()
		if err != nil {
			if err == io.EOF {
				err = io.ErrUnexpectedEOF
			}
			return 0, err
		}
		d.bits |= uint32(c) << d.nBits
		d.nBits += 8
	}
	u := d.bits & (1<<n - 1)
	d.bits >>= n
	d.nBits -= n
	return u, nil
}

// decodeTransform decodes the next transform and the width of the image after
// transformation (or equivalently, before inverse transformation), specified
// in section 3.
func (d *decoder) decodeTransform(w int32, h int32) (t transform, newWidth int32, err error) {
	t.oldWidth = w
	t.transformType, err = d.read(2)
	if err != nil {
		return transform{}, 0, err
	}
	switch t.transformType {
	case transformTypePredictor, transformTypeCrossColor:
		t.bits, err = d.read(3)
		if err != nil {
			return transform{}, 0, err
		}
		t.bits += 2
		t.pix, err = d.decodePix(nTiles(w, t.bits), nTiles(h, t.bits), 0, false)
		if err != nil {
			return transform{}, 0, err
		}
	case transformTypeSubtractGreen:
		// No-op.
	case transformTypeColorIndexing:
		nColors, err := d.read(8)
		if err != nil {
			return transform{}, 0, err
		}
		nColors++
		t.bits = 0
		switch {
		case nColors <= 2:
			t.bits = 3
		case nColors <= 4:
			t.bits = 2
		case nColors <= 16:
			t.bits = 1
		}
		w = nTiles(w, t.bits)
		pix, err := d.decodePix(int32(nColors), 1, 4*256, false)
		if err != nil {
			return transform{}, 0, err
		}
		for p := 4; p < len(pix); p += 4 {
			pix[p+0] += pix[p-4]
			pix[p+1] += pix[p-3]
			pix[p+2] += pix[p-2]
			pix[p+3] += pix[p-1]
		}
		// The spec says that "if the index is equal or larger than color_table_size,
		// the argb color value should be set to 0x00000000 (transparent black)."
		// We re-slice up to 256 4-byte pixels.
		t.pix = pix[:4*256]
	}
	return t, w, nil
}

// repeatsCodeLength is the minimum code length for repeated codes.
const repeatsCodeLength = 16

// These magic numbers are specified at the end of section 5.2.2.
// The 3-length arrays apply to code lengths >= repeatsCodeLength.
var (
	codeLengthCodeOrder = [19]uint8{
		17, 18, 0, 1, 2, 3, 4, 5, 16, 6, 7, 8, 9, 10, 11, 12, 13, 14, 15,
	}
	repeatBits    = [3]uint8{2, 3, 7}
	repeatOffsets = [3]uint8{3, 3, 11}
)

// decodeCodeLengths decodes a Huffman tree's code lengths which are themselves
// encoded via a Huffman tree, specified in section 5.2.2.
func (d *decoder) decodeCodeLengths(dst []uint32, codeLengthCodeLengths []uint32) error {
	h := hTree{}
	if err := h.build(codeLengthCodeLengths); err != nil {
		return err
	}

	maxSymbol := len(dst)
	useLength, err := d.read(1)
	if err != nil {
		return err
	}
	if useLength != 0 {
		n, err := d.read(3)
		if err != nil {
			return err
		}
		n = 2 + 2*n
		ms, err := d.read(n)
		if err != nil {
			return err
		}
		maxSymbol = int(ms) + 2
		if maxSymbol > len(dst) {
			return errInvalidCodeLengths
		}
	}

	// The spec says that "if code 16 [meaning repeat] is used before
	// a non-zero value has been emitted, a value of 8 is repeated."
	prevCodeLength := uint32(8)

	for symbol := 0; symbol < len(dst); {
		if maxSymbol == 0 {
			break
		}
		maxSymbol--
		codeLength, err := h.next(d)
		if err != nil {
			return err
		}
		if codeLength < repeatsCodeLength {
			dst[symbol] = codeLength
			symbol++
			if codeLength != 0 {
				prevCodeLength = codeLength
			}
			continue
		}

		repeat, err := d.read(uint32(repeatBits[codeLength-repeatsCodeLength]))
		if err != nil {
			return err
		}
		repeat += uint32(repeatOffsets[codeLength-repeatsCodeLength])
		if symbol+int(repeat) > len(dst) {
			return errInvalidCodeLengths
		}
		// A code length of 16 repeats the previous non-zero code.
		// A code length of 17 or 18 repeats zeroes.
		cl := uint32(0)
		if codeLength == 16 {
			cl = prevCodeLength
		}
		for ; repeat > 0; repeat-- {
			dst[symbol] = cl
			symbol++
		}
	}
	return nil
}

// decodeHuffmanTree decodes a Huffman tree into h.
func (d *decoder) decodeHuffmanTree(h *hTree, alphabetSize uint32) error {
	useSimple, err := d.read(1)
	if err != nil {
		return err
	}
	if useSimple != 0 {
		nSymbols, err := d.read(1)
		if err != nil {
			return err
		}
		nSymbols++
		firstSymbolLengthCode, err := d.read(1)
		if err != nil {
			return err
		}
		firstSymbolLengthCode = 7*firstSymbolLengthCode + 1
		var symbols [2]uint32
		symbols[0], err = d.read(firstSymbolLengthCode)
		if err != nil {
			return err
		}
		if nSymbols == 2 {
			symbols[1], err = d.read(8)
			if err != nil {
				return err
			}
		}
		return h.buildSimple(nSymbols, symbols, alphabetSize)
	}

	nCodes, err := d.read(4)
	if err != nil {
		return err
	}
	nCodes += 4
	if int(nCodes) > len(codeLengthCodeOrder) {
		return errInvalidHuffmanTree
	}
	codeLengthCodeLengths := [len(codeLengthCodeOrder)]uint32{}
	for i := uint32(0); i < nCodes; i++ {
		codeLengthCodeLengths[codeLengthCodeOrder[i]], err = d.read(3)
		if err != nil {
			return err
		}
	}
	codeLengths := make([]uint32, alphabetSize)
	if err = d.decodeCodeLengths(codeLengths, codeLengthCodeLengths[:]); err != nil {
		return err
	}
	return h.build(codeLengths)
}

const (
	huffGreen    = 0
	huffRed      = 1
	huffBlue     = 2
	huffAlpha    = 3
	huffDistance = 4
	nHuff        = 5
)

// MaxGroups (0 = no limit) lets a caller that feeds arbitrary bytes bound the work of this
// decoder: a 100-byte stream may declare 65536 prefix-code groups, each costing five tree
// allocations. Streams above the limit are rejected (the witness then decides nothing). /verif addition.
var MaxGroups int

var errTooManyGroups = errors.New("vp8l: more prefix-code groups than the caller's limit")

// hGroup is an array of 5 Huffman trees.
type hGroup [nHuff]hTree

// decodeHuffmanGroups decodes the one or more hGroups used to decode the pixel
// data. If one hGroup is used for the entire image, then hPix and hBits will
// be zero. If more than one hGroup is used, then hPix contains the meta-image
// that maps tiles to hGroup index, and hBits contains the log-2 tile size.
func (d *decoder) decodeHuffmanGroups(w int32, h int32, topLevel bool, ccBits uint32) (
	hGroups []hGroup, hPix []byte, hBits uint32, err error) {

	maxHGroupIndex := 0
	if topLevel {
		useMeta, err := d.read(1)
		if err != nil {
			return nil, nil, 0, err
		}
		if useMeta != 0 {
			hBits, err = d.read(3)
			if err != nil {
				return nil, nil, 0, err
			}
			hBits += 2
			hPix, err = d.decodePix(nTiles(w, hBits), nTiles(h, hBits), 0, false)
			if err != nil {
				return nil, nil, 0, err
			}
			for p := 0; p < len(hPix); p += 4 {
				i := int(hPix[p])<<8 | int(hPix[p+1])
				if maxHGroupIndex < i {
					maxHGroupIndex = i
				}
			}
		}
	}
	if MaxGroups > 0 && maxHGroupIndex+1 > MaxGroups {
		return nil, nil, 0, errTooManyGroups
	}
	hGroups = make([]hGroup, maxHGroupIndex+1)
	for i := range hGroups {
		for j, alphabetSize := range alphabetSizes {
			if j == 0 && ccBits > 0 {
				alphabetSize += 1 << ccBits
			}
			if err := d.decodeHuffmanTree(&hGroups[i][j], alphabetSize); err != nil {
				return nil, nil, 0, err
			}
		}
	}
	return hGroups, hPix, hBits, nil
}

const (
	nLiteralCodes  = 256
	nLengthCodes   = 24
	nDistanceCodes = 40
)

var alphabetSizes = [nHuff]uint32{
	nLiteralCodes + nLengthCodes,
	nLiteralCodes,
	nLiteralCodes,
	nLiteralCodes,
	nDistanceCodes,
}

// decodePix decodes pixel data, specified in section 5.2.2.
func (d *decoder) decodePix(w int32, h int32, minCap int32, topLevel bool) ([]byte, error) {
	// Decode the color cache parameters.
	ccBits, ccShift, ccEntries := uint32(0), uint32(0), ([]uint32)(nil)
	useColorCache, err := d.read(1)
	if err != nil {
		return nil, err
	}
	if useColorCache != 0 {
		ccBits, err = d.read(4)
		if err != nil {
			return nil, err
		}
		if ccBits < 1 || 11 < ccBits {
			return nil, errors.New("vp8l: invalid color cache parameters")
		}
		ccShift = 32 - ccBits
		ccEntries = make([]uint32, 1<<ccBits)
	}

	// Decode the Huffman groups.
	hGroups, hPix, hBits, err := d.decodeHuffmanGroups(w, h, topLevel, ccBits)
	if err != nil {
		return nil, err
	}
	hMask, tilesPerRow := int32(0), int32(0)
	if hBits != 0 {
		hMask, tilesPerRow = 1<<hBits-1, nTiles(w, hBits)
	}

	// Decode the pixels.
	if minCap < 4*w*h {
		minCap = 4 * w * h
	}
	pix := make([]byte, 4*w*h, minCap)
	p, cachedP := 0, 0
	x, y := int32(0), int32(0)
	hg, lookupHG := &hGroups[0], hMask != 0
	for p < len(pix) {
		if lookupHG {
			i := 4 * (tilesPerRow*(y>>hBits) + (x >> hBits))
			hg = &hGroups[uint32(hPix[i])<<8|uint32(hPix[i+1])]
		}

		green, err := hg[huffGreen].next(d)
		if err != nil {
			return nil, err
		}
		switch {
		case green < nLiteralCodes:
			// We have a literal pixel.
			red, err := hg[huffRed].next(d)
			if err != nil {
				return nil, err
			}
			blue, err := hg[huffBlue].next(d)
			if err != nil {
				return nil, err
			}
			alpha, err := hg[huffAlpha].next(d)
			if err != nil {
				return nil, err
			}
			pix[p+0] = uint8(red)
			pix[p+1] = uint8(green)
			pix[p+2] = uint8(blue)
			pix[p+3] = uint8(alpha)
			p += 4

			x++
			if x == w {
				x, y = 0, y+1
			}
			lookupHG = hMask != 0 && x&hMask == 0

		case green < nLiteralCodes+nLengthCodes:
			// We have a LZ77 backwards reference.
			length, err := d.lz77Param(green - nLiteralCodes)
			if err != nil {
				return nil, err
			}
			distSym, err := hg[huffDistance].next(d)
			if err != nil {
				return nil, err
			}
			distCode, err := d.lz77Param(distSym)
			if err != nil {
				return nil, err
			}
			dist := distanceMap(w, distCode)
			pEnd := p + 4*int(length)
			q := p - 4*int(dist)
			qEnd := pEnd - 4*int(dist)
			if p < 0 || len(pix) < pEnd || q < 0 || len(pix) < qEnd {
				return nil, errors.New("vp8l: invalid LZ77 parameters")
			}
			for ; p < pEnd; p, q = p+1, q+1 {
				pix[p] = pix[q]
			}

			x += int32(length)
			for x >= w {
				x, y = x-w, y+1
			}
			lookupHG = hMask != 0

		default:
			// We have a color cache lookup. First, insert previous pixels
			// into the cache. Note that VP8L assumes ARGB order, but the
			// Go image.RGBA type is in RGBA order.
			for ; cachedP < p; cachedP += 4 {
				argb := uint32(pix[cachedP+0])<<16 |
					uint32(pix[cachedP+1])<<8 |
					uint32(pix[cachedP+2])<<0 |
					uint32(pix[cachedP+3])<<24
				ccEntries[(argb*colorCacheMultiplier)>>ccShift] = argb
			}
			green -= nLiteralCodes + nLengthCodes
			if int(green) >= len(ccEntries) {
				return nil, errors.New("vp8l: invalid color cache index")
			}
			argb := ccEntries[green]
			pix[p+0] = uint8(argb >> 16)
			pix[p+1] = uint8(argb >> 8)
			pix[p+2] = uint8(argb >> 0)
			pix[p+3] = uint8(argb >> 24)
			p += 4

			x++
			if x == w {
				x, y = 0, y+1
			}
			lookupHG = hMask != 0 && x&hMask == 0
		}
	}
	return pix, nil
}

// lz77Param returns the next LZ77 parameter: a length or a distance, specified
// in section 4.2.2.
func (d *decoder) lz77Param(symbol uint32) (uint32, error) {
	if symbol < 4 {
		return symbol + 1, nil
	}
	extraBits := (symbol - 2) >> 1
	offset := (2 + symbol&1) << extraBits
	n, err := d.read(extraBits)
	if err != nil {
		return 0, err
	}
	return offset + n + 1, nil
}

// decodeHeader decodes the VP8L header from r.
func decodeHeader(r io.Reader) (d *decoder, w int32, h int32, err error) {
	rr, ok := r.(io.ByteReader)
	if !ok {
		rr = bufio.NewReader(r)
	}
	d = &decoder{r: rr}
	magic, err := d.read(8)
	if err != nil {
		return nil, 0, 0, err
	}
	if magic != 0x2f {
		return nil, 0, 0, errors.New("vp8l: invalid header")
	}
	width, err := d.read(14)
	if err != nil {
		return nil, 0, 0, err
	}
	width++
	height, err := d.read(14)
	if err != nil {
		return nil, 0, 0, err
	}
	height++
	_, err = d.read(1) // Read and ignore the hasAlpha hint.
	if err != nil {
		return nil, 0, 0, err
	}
	version, err := d.read(3)
	if err != nil {
		return nil, 0, 0, err
	}
	if version != 0 {
		return nil, 0, 0, errors.New("vp8l: invalid version")
	}
	return d, int32(width), int32(height), nil
}

// DecodeConfig decodes the color model and dimensions of a VP8L image from r.
func DecodeConfig(r io.Reader) (image.Config, error) {
	_, w, h, err := decodeHeader(r)
	if err != nil {
		return image.Config{}, err
	}
	return image.Config{
		ColorModel: color.NRGBAModel,
		Width:      int(w),
		Height:     int(h),
	}, nil
}

// Decode decodes a VP8L image from r.
func Decode(r io.Reader) (image.Image, error) {
	d, w, h, err := decodeHeader(r)
	if err != nil {
		return nil, err
	}
	// Decode the transforms.
	var (
		nTransforms    int
		transforms     [nTransformTypes]transform
		transformsSeen [nTransformTypes]bool
		originalW      = w
	)
	for {
		more, err := d.read(1)
		if err != nil {
			return nil, err
		}
		if more == 0 {
			break
		}
		var t transform
		t, w, err = d.decodeTransform(w, h)
		if err != nil {
			return nil, err
		}
		if transformsSeen[t.transformType] {
			return nil, errors.New("vp8l: repeated transform")
		}
		transformsSeen[t.transformType] = true
		transforms[nTransforms] = t
		nTransforms++
	}
	// Decode the transformed pixels.
	pix, err := d.decodePix(w, h, 0, true)
	if err != nil {
		return nil, err
	}
	// Apply the inverse transformations.
	for i := nTransforms - 1; i >= 0; i-- {
		t := &transforms[i]
		pix = inverseTransforms[t.transformType](t, pix, h)
	}
	return &image.NRGBA{
		Pix:    pix,
		Stride: 4 * int(originalW),
		Rect:   image.Rect(0, 0, int(originalW), int(h)),
	}, nil
}
