// Copyright 2014 The Go Authors. All rights reserved.
// Use of this source code is governed by a BSD-style
// license that can be found in the LICENSE file.

package xvp8l

// This file deals with image transforms, specified in section 3.

// nTiles returns the number of tiles needed to cover size pixels, where each
// tile's side is 1<<bits pixels long.
func nTiles(size int32, bits uint32) int32 {
	return (size + 1<<bits - 1) >> bits
}

const (
	transformTypePredictor     = 0
	transformTypeCrossColor    = 1
	transformTypeSubtractGreen = 2
	transformTypeColorIndexing = 3
	nTransformTypes            = 4
)

// transform holds the parameters for an invertible transform.
type transform struct {
	// transformType is the type of the transform.
	transformType uint32
	// oldWidth is the width of the image before transformation (or
	// equivalently, after inverse transformation). The color-indexing
	// transform can reduce the width. For example, a 50-pixel-wide
	// image that only needs 4 bits (half a byte) per color index can
	// be transformed into a 25-pixel-wide image.
	oldWidth int32
	// bits is the log-2 size of the transform's tiles, for the predictor
	// and cross-color transforms. 8>>bits is the number of bits per
	// color index, for the color-index transform.
	bits uint32
	// pix is the tile values, for the predictor and cross-color
	// transforms, and the color palette, for the color-index transform.
	pix []byte
}

var inverseTransforms = [nTransformTypes]func(*transform, []byte, int32) []byte{
	transformTypePredictor:     inversePredictor,
	transformTypeCrossColor:    inverseCrossColor,
	transformTypeSubtractGreen: inverseSubtractGreen,
	transformTypeColorIndexing: inverseColorIndexing,
}

func inversePredictor(t *transform, pix []byte, h int32) []byte {
	if t.oldWidth == 0 || h == 0 {
		return pix
	}
	// The first pixel's predictor is mode 0 (opaque black).
	pix[3] += 0xff
	p, mask := int32(4), int32(1)<<t.bits-1
	for x := int32(1); x < t.oldWidth; x++ {
		// The rest of the first row's predictor is mode 1 (L).
		pix[p+0] += pix[p-4]
		pix[p+1] += pix[p-3]
		pix[p+2] += pix[p-2]
		pix[p+3] += pix[p-1]
		p += 4
	}
	top, tilesPerRow := 0, nTiles(t.oldWidth, t.bits)
	for y := int32(1); y < h; y++ {
		// The first column's predictor is mode 2 (T).
		pix[p+0] += pix[top+0]
		pix[p+1] += pix[top+1]
		pix[p+2] += pix[top+2]
		pix[p+3] += pix[top+3]
		p, top = p+4, top+4

		q := 4 * (y >> t.bits) * tilesPerRow
		predictorMode := t.pix[q+1] & 0x0f
		q += 4
		for x := int32(1); x < t.oldWidth; x++ {
			if x&mask == 0 {
				predictorMode = t.pix[q+1] & 0x0f
				q += 4
			}
			switch predictorMode {
			case 0: // Opaque black.
				pix[p+3] += 0xff

			case 1: // L.
				pix[p+0] += pix[p-4]
				pix[p+1] += pix[p-3]
				pix[p+2] += pix[p-2]
				pix[p+3] += pix[p-1]

			case 2: // T.
				pix[p+0] += pix[top+0]
				pix[p+1] += pix[top+1]
				pix[p+2] += pix[top+2]
				pix[p+3] += pix[top+3]

			case 3: // TR.
				pix[p+0] += pix[top+4]
				pix[p+1] += pix[top+5]
				pix[p+2] += pix[top+6]
				pix[p+3] += pix[top+7]

			case 4: // TL.
				pix[p+0] += pix[top-4]
				pix[p+1] += pix[top-3]
				pix[p+2] += pix[top-2]
				pix[p+3] += pix[top-1]

			case 5: // Average2(Average2(L, TR), T).
				pix[p+0] += avg2(avg2(pix[p-4], pix[top+4]), pix[top+0])
				pix[p+1] += avg2(avg2(pix[p-3], pix[top+5]), pix[top+1])
				pix[p+2] += avg2(avg2(pix[p-2], pix[top+6]), pix[top+2])
				pix[p+3] += avg2(avg2(pix[p-1], pix[top+7]), pix[top+3])

			case 6: // Average2(L, TL).
				pix[p+0] += avg2(pix[p-4], pix[top-4])
				pix[p+1] += avg2(pix[p-3], pix[top-3])
				pix[p+2] += avg2(pix[p-2], pix[top-2])
				pix[p+3] += avg2(pix[p-1], pix[top-1])

			case 7: // Average2(L, T).
				pix[p+0] += avg2(pix[p-4], pix[top+0])
				pix[p+1] += avg2(pix[p-3], pix[top+1])
				pix[p+2] += avg2(pix[p-2], pix[top+2])
				pix[p+3] += avg2(pix[p-1], pix[top+3])

			case 8: // Average2(TL, T).
				pix[p+0] += avg2(pix[top-4], pix[top+0])
				pix[p+1] += avg2(pix[top-3], pix[top+1])
				pix[p+2] += avg2(pix[top-2], pix[top+2])
				pix[p+3] += avg2(pix[top-1], pix[top+3])

			case 9: // Average2(T, TR).
				pix[p+0] += avg2(pix[top+0], pix[top+4])
				pix[p+1] += avg2(pix[top+1], pix[top+5])
				pix[p+2] += avg2(pix[top+2], pix[top+6])
				pix[p+3] += avg2(pix[top+3], pix[top+7])

			case 10: // Average2(Average2(L, TL), Average2(T, TR)).
				pix[p+0] += avg2(avg2(pix[p-4], pix[top-4]), avg2(pix[top+0], pix[top+4]))
				pix[p+1] += avg2(avg2(pix[p-3], pix[top-3]), avg2(pix[top+1], pix[top+5]))
				pix[p+2] += avg2(avg2(pix[p-2], pix[top-2]), avg2(pix[top+2], pix[top+6]))
				pix[p+3] += avg2(avg2(pix[p-1], pix[top-1]), avg2(pix[top+3], pix[top+7]))

			case 11: // Select(L, T, TL).
				l0 := int32(pix[p-4])
				l1 := int32(pix[p-3])
				l2 := int32(pix[p-2])
				l3 := int32(pix[p-1])
				c0 := int32(pix[top-4])
				c1 := int32(pix[top-3])
				c2 := int32(pix[top-2])
				c3 := int32(pix[top-1])
				t0 := int32(pix[top+0])
				t1 := int32(pix[top+1])
				t2 := int32(pix[top+2])
				t3 := int32(pix[top+3])
				l := abs(c0-t0) + abs(c1-t1) + abs(c2-t2) + abs(c3-t3)
				t := abs(c0-l0) + abs(c1-l1) + abs(c2-l2) + abs(c3-l3)
				if l < t {
					pix[p+0] += uint8(l0)
					pix[p+1] += uint8(l1)
					pix[p+2] += uint8(l2)
					pix[p+3] += uint8(l3)
				} else {
					pix[p+0] += uint8(t0)
					pix[p+1] += uint8(t1)
					pix[p+2] += uint8(t2)
					pix[p+3] += uint8(t3)
				}

			case 12: // ClampAddSubtractFull(L, T, TL).
				pix[p+0] += clampAddSubtractFull(pix[p-4], pix[top+0], pix[top-4])
				pix[p+1] += clampAddSubtractFull(pix[p-3], pix[top+1], pix[top-3])
				pix[p+2] += clampAddSubtractFull(pix[p-2], pix[top+2], pix[top-2])
				pix[p+3] += clampAddSubtractFull(pix[p-1], pix[top+3], pix[top-1])

			case 13: // ClampAddSubtractHalf(Average2(L, T), TL).
				pix[p+0] += clampAddSubtractHalf(avg2(pix[p-4], pix[top+0]), pix[top-4])
				pix[p+1] += clampAddSubtractHalf(avg2(pix[p-3], pix[top+1]), pix[top-3])
				pix[p+2] += clampAddSubtractHalf(avg2(pix[p-2], pix[top+2]), pix[top-2])
				pix[p+3] += clampAddSubtractHalf(avg2(pix[p-1], pix[top+3]), pix[top-1])
			}
			p, top = p+4, top+4
		}
	}
	return pix
}

func inverseCrossColor(t *transform, pix []byte, h int32) []byte {
	var greenToRed, greenToBlue, redToBlue int32
	p, mask, tilesPerRow := int32(0), int32(1)<<t.bits-1, nTiles(t.oldWidth, t.bits)
	for y := int32(0); y < h; y++ {
		q := 4 * (y >> t.bits) * tilesPerRow
		for x := int32(0); x < t.oldWidth; x++ {
			if x&mask == 0 {
				redToBlue = int32(int8(t.pix[q+0]))
				greenToBlue = int32(int8(t.pix[q+1]))
				greenToRed = int32(int8(t.pix[q+2]))
				q += 4
			}
			red := pix[p+0]
			green := pix[p+1]
			blue := pix[p+2]
			red += uint8(uint32(greenToRed*int32(int8(green))) >> 5)
			blue += uint8(uint32(greenToBlue*int32(int8(green))) >> 5)
			blue += uint8(uint32(redToBlue*int32(int8(red))) >> 5)
			pix[p+0] = red
			pix[p+2] = blue
			p += 4
		}
	}
	return pix
}

func inverseSubtractGreen(t *transform, pix []byte, h int32) []byte {
	for p := 0; p < len(pix); p += 4 {
		green := pix[p+1]
		pix[p+0] += green
		pix[p+2] += green
	}
	return pix
}

func inverseColorIndexing(t *transform, pix []byte, h int32) []byte {
	if t.bits == 0 {
		for p := 0; p < len(pix); p += 4 {
			i := 4 * uint32(pix[p+1])
			pix[p+0] = t.pix[i+0]
			pix[p+1] = t.pix[i+1]
			pix[p+2] = t.pix[i+2]
			pix[p+3] = t.pix[i+3]
		}
		return pix
	}

	vMask, xMask, bitsPerPixel := uint32(0), int32(0), uint32(8>>t.bits)
	switch t.bits {
	case 1:
		vMask, xMask = 0x0f, 0x01
	case 2:
		vMask, xMask = 0x03, 0x03
	case 3:
		vMask, xMask = 0x01, 0x07
	}

	d, p, v, dst := 0, 0, uint32(0), make([]byte, 4*t.oldWidth*h)
	for y := int32(0); y < h; y++ {
		for x := int32(0); x < t.oldWidth; x++ {
			if x&xMask == 0 {
				v = uint32(pix[p+1])
				p += 4
			}

			i := 4 * (v & vMask)
			dst[d+0] = t.pix[i+0]
			dst[d+1] = t.pix[i+1]
			dst[d+2] = t.pix[i+2]
			dst[d+3] = t.pix[i+3]
			d += 4

			v >>= bitsPerPixel
		}
	}
	return dst
}

func abs(x int32) int32 {
	if x < 0 {
		return -x
	}
	return x
}

func avg2(a, b uint8) uint8 {
	return uint8((int32(a) + int32(b)) / 2)
}

func clampAddSubtractFull(a, b, c uint8) uint8 {
	x := int32(a) + int32(b) - int32(c)
	if x < 0 {
		return 0
	}
	if x > 255 {
		return 255
	}
	return uint8(x)
}

func clampAddSubtractHalf(a, b uint8) uint8 {
	x := int32(a) + (int32(a)-int32(b))/2
	if x < 0 {
		return 0
	}
	if x > 255 {
		return 255
	}
	return uint8(x)
}
