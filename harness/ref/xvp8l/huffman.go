// Copyright 2014 The Go Authors. All rights reserved.
// Use of this source code is governed by a BSD-style
// license that can be found in the LICENSE file.

package xvp8l

import (
	"io"
)

// reverseBits reverses the bits in a byte.
var reverseBits = [256]uint8{
	0x00, 0x80, 0x40, 0xc0, 0x20, 0xa0, 0x60, 0xe0, 0x10, 0x90, 0x50, 0xd0, 0x30, 0xb0, 0x70, 0xf0,
	0x08, 0x88, 0x48, 0xc8, 0x28, 0xa8, 0x68, 0xe8, 0x18, 0x98, 0x58, 0xd8, 0x38, 0xb8, 0x78, 0xf8,
	0x04, 0x84, 0x44, 0xc4, 0x24, 0xa4, 0x64, 0xe4, 0x14, 0x94, 0x54, 0xd4, 0x34, 0xb4, 0x74, 0xf4,
	0x0c, 0x8c, 0x4c, 0xcc, 0x2c, 0xac, 0x6c, 0xec, 0x1c, 0x9c, 0x5c, 0xdc, 0x3c, 0xbc, 0x7c, 0xfc,
	0x02, 0x82, 0x42, 0xc2, 0x22, 0xa2, 0x62, 0xe2, 0x12, 0x92, 0x52, 0xd2, 0x32, 0xb2, 0x72, 0xf2,
	0x0a, 0x8a, 0x4a, 0xca, 0x2a, 0xaa, 0x6a, 0xea, 0x1a, 0x9a, 0x5a, 0xda, 0x3a, 0xba, 0x7a, 0xfa,
	0x06, 0x86, 0x46, 0xc6, 0x26, 0xa6, 0x66, 0xe6, 0x16, 0x96, 0x56, 0xd6, 0x36, 0xb6, 0x76, 0xf6,
	0x0e, 0x8e, 0x4e, 0xce, 0x2e, 0xae, 0x6e, 0xee, 0x1e, 0x9e, 0x5e, 0xde, 0x3e, 0xbe, 0x7e, 0xfe,
	0x01, 0x81, 0x41, 0xc1, 0x21, 0xa1, 0x61, 0xe1, 0x11, 0x91, 0x51, 0xd1, 0x31, 0xb1, 0x71, 0xf1,
	0x09, 0x89, 0x49, 0xc9, 0x29, 0xa9, 0x69, 0xe9, 0x19, 0x99, 0x59, 0xd9, 0x39, 0xb9, 0x79, 0xf9,
	0x05, 0x85, 0x45, 0xc5, 0x25, 0xa5, 0x65, 0xe5, 0x15, 0x95, 0x55, 0xd5, 0x35, 0xb5, 0x75, 0xf5,
	0x0d, 0x8d, 0x4d, 0xcd, 0x2d, 0xad, 0x6d, 0xed, 0x1d, 0x9d, 0x5d, 0xdd, 0x3d, 0xbd, 0x7d, 0xfd,
	0x03, 0x83, 0x43, 0xc3, 0x23, 0xa3, 0x63, 0xe3, 0x13, 0x93, 0x53, 0xd3, 0x33, 0xb3, 0x73, 0xf3,
	0x0b, 0x8b, 0x4b, 0xcb, 0x2b, 0xab, 0x6b, 0xeb, 0x1b, 0x9b, 0x5b, 0xdb, 0x3b, 0xbb, 0x7b, 0xfb,
	0x07, 0x87, 0x47, 0xc7, 0x27, 0xa7, 0x67, 0xe7, 0x17, 0x97, 0x57, 0xd7, 0x37, 0xb7, 0x77, 0xf7,
	0x0f, 0x8f, 0x4f, 0xcf, 0x2f, 0xaf, 0x6f, 0xef, 0x1f, 0x9f, 0x5f, 0xdf, 0x3f, 0xbf, 0x7f, 0xff,
}

// hNode is a node in a Huffman tree.
type hNode struct {
	// symbol is the symbol held by this node.
	symbol uint32
	// children, if positive, is the hTree.nodes index of the first of
	// this node's two children. Zero means an uninitialized node,
	// and -1 means a leaf node.
	children int32
}

const leafNode = -1

// lutSize is the log-2 size of an hTree's look-up table.
const lutSize, lutMask = 7, 1<<7 - 1

// hTree is a Huffman tree.
type hTree struct {
	// nodes are the nodes of the Huffman tree. During construction,
	// len(nodes) grows from 1 up to cap(nodes) by steps of two.
	// After construction, len(nodes) == cap(nodes), and both equal
	// 2*theNumberOfSymbols - 1.
	nodes []hNode
	// lut is a look-up table for walking the nodes. The x in lut[x] is
	// the next lutSize bits in the bit-stream. The low 8 bits of lut[x]
	// equals 1 plus the number of bits in the next code, or 0 if the
	// next code requires more than lutSize bits. The high 24 bits are:
	//   - the symbol, if the code requires lutSize or fewer bits, or
	//   - the hTree.nodes index to start the tree traversal from, if
	//     the next code requires more than lutSize bits.
	lut [1 << lutSize]uint32
}

// insert inserts into the hTree a symbol whose encoding is the least
// significant codeLength bits of code.
func (h *hTree) insert(symbol uint32, code uint32, codeLength uint32) error {
	if symbol > 0xffff || codeLength > 0xfe {
		return errInvalidHuffmanTree
	}
	baseCode := uint32(0)
	if codeLength > lutSize {
		baseCode = uint32(reverseBits[(code>>(codeLength-lutSize))&0xff]) >> (8 - lutSize)
	} else {
		baseCode = uint32(reverseBits[code&0xff]) >> (8 - codeLength)
		for i := 0; i < 1<<(lutSize-codeLength); i++ {
			h.lut[baseCode|uint32(i)<<codeLength] = symbol<<8 | (codeLength + 1)
		}
	}

	n := uint32(0)
	for jump := lutSize; codeLength > 0; {
		codeLength--
		if int(n) > len(h.nodes) {
			return errInvalidHuffmanTree
		}
		switch h.nodes[n].children {
		case leafNode:
			return errInvalidHuffmanTree
		case 0:
			if len(h.nodes) == cap(h.nodes) {
				return errInvalidHuffmanTree
			}
			// Create two empty child nodes.
			h.nodes[n].children = int32(len(h.nodes))
			h.nodes = h.nodes[:len(h.nodes)+2]
		}
		n = uint32(h.nodes[n].children) + 1&(code>>codeLength)
		jump--
		if jump == 0 && h.lut[baseCode] == 0 {
			h.lut[baseCode] = n << 8
		}
	}

	switch h.nodes[n].children {
	case leafNode:
		// No-op.
	case 0:
		// Turn the uninitialized node into a leaf.
		h.nodes[n].children = leafNode
	default:
		return errInvalidHuffmanTree
	}
	h.nodes[n].symbol = symbol
	return nil
}

// codeLengthsToCodes returns the canonical Huffman codes implied by the
// sequence of code lengths.
func codeLengthsToCodes(codeLengths []uint32) ([]uint32, error) {
	maxCodeLength := uint32(0)
	for _, cl := range codeLengths {
		if maxCodeLength < cl {
			maxCodeLength = cl
		}
	}
	const maxAllowedCodeLength = 15
	if len(codeLengths) == 0 || maxCodeLength > maxAllowedCodeLength {
		return nil, errInvalidHuffmanTree
	}
	histogram := [maxAllowedCodeLength + 1]uint32{}
	for _, cl := range codeLengths {
		histogram[cl]++
	}
	currCode, nextCodes := uint32(0), [maxAllowedCodeLength + 1]uint32{}
	for cl := 1; cl < len(nextCodes); cl++ {
		currCode = (currCode + histogram[cl-1]) << 1
		nextCodes[cl] = currCode
	}
	codes := make([]uint32, len(codeLengths))
	for symbol, cl := range codeLengths {
		if cl > 0 {
			codes[symbol] = nextCodes[cl]
			nextCodes[cl]++
		}
	}
	return codes, nil
}

// build builds a canonical Huffman tree from the given code lengths.
func (h *hTree) build(codeLengths []uint32) error {
	// Calculate the number of symbols.
	var nSymbols, lastSymbol uint32
	for symbol, cl := range codeLengths {
		if cl != 0 {
			nSymbols++
			lastSymbol = uint32(symbol)
		}
	}
	if nSymbols == 0 {
		return errInvalidHuffmanTree
	}
	h.nodes = make([]hNode, 1, 2*nSymbols-1)
	// Handle the trivial case.
	if nSymbols == 1 {
		if len(codeLengths) <= int(lastSymbol) {
			return errInvalidHuffmanTree
		}
		return h.insert(lastSymbol, 0, 0)
	}
	// Handle the non-trivial case.
	codes, err := codeLengthsToCodes(codeLengths)
	if err != nil {
		return err
	}
	for symbol, cl := range codeLengths {
		if cl > 0 {
			if err := h.insert(uint32(symbol), codes[symbol], cl); err != nil {
				return err
			}
		}
	}
	return nil
}

// buildSimple builds a Huffman tree with 1 or 2 symbols.
func (h *hTree) buildSimple(nSymbols uint32, symbols [2]uint32, alphabetSize uint32) error {
	// /verif change: a simple code only conveys code LENGTHS (both 1); the codes follow from the
	// canonical assignment, i.e. the numerically smaller symbol gets code 0 whatever the order in
	// which the two symbols were transmitted (libwebp, the specification's reference, does this).
	// Upstream gives code 0 to the first-transmitted symbol, which differs for descending order.
	if nSymbols == 2 && symbols[0] > symbols[1] {
		symbols[0], symbols[1] = symbols[1], symbols[0]
	}
	h.nodes = make([]hNode, 1, 2*nSymbols-1)
	for i := uint32(0); i < nSymbols; i++ {
		if symbols[i] >= alphabetSize {
			return errInvalidHuffmanTree
		}
		if err := h.insert(symbols[i], i, nSymbols-1); err != nil {
			return err
		}
	}
	return nil
}

// next returns the next Huffman-encoded symbol from the bit-stream d.
func (h *hTree) next(d *decoder) (uint32, error) {
	var n uint32
	// Read enough bits so that we can use the look-up table.
	if d.nBits < lutSize {
		c, err := d.r.ReadByte()
		if err != nil {
			if err == io.EOF {
				// There are no more bytes of data, but we may still be able
				// to read the next symbol out of the previously read bits.
				goto slowPath
			}
			return 0, err
		}
		d.bits |= uint32(c) << d.nBits
		d.nBits += 8
	}
	// Use the look-up table.
	n = h.lut[d.bits&lutMask]
	if b := n & 0xff; b != 0 {
		b--
		d.bits >>= b
		d.nBits -= b
		return n >> 8, nil
	}
	n >>= 8
	d.bits >>= lutSize
	d.nBits -= lutSize

slowPath:
	for h.nodes[n].children != leafNode {
		if d.nBits == 0 {
			c, err := d.r.ReadByte()
			if err != nil {
				if err == io.EOF {
					err = io.ErrUnexpectedEOF
				}
				return 0, err
			}
			d.bits = uint32(c)
			d.nBits = 8
		}
		n = uint32(h.nodes[n].children) + 1&d.bits
		d.bits >>= 1
		d.nBits--
	}
	return h.nodes[n].symbol, nil
}
