module github.com/deepteams/webp/verifharness

go 1.24.2

require (
	github.com/deepteams/webp v0.0.0
	golang.org/x/image v0.0.0-20190802002840-cff245a6509b
	pgregory.net/rapid v1.3.0
)

replace github.com/deepteams/webp => /repo
