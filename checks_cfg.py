# Per-property configuration of the driver (tests, case counts per tier, evidence rule, level).
CHECKS = {
    "C01": dict(
        level="exploration",
        rule="rapid draws (picture recipe: size x content class x alpha class x Go image type x placement) x (Quality, Method, Exact, metadata); "
             "oracle: Decode(Encode(img)) equals the source read through image.Image as NRGBA. Non-trivial: picture has >=2 distinct pixels; "
             "distinct = (colour-count class, alpha class, size class, Go type, Method, Quality band, Exact) signatures.",
        assumptions=["rapid v1.3.0 generation and shrinking", "premultiplied *image.RGBA sources with 0<a<255 are compared within +-1 on RGB (un-multiplication is not uniquely defined)"],
        tests=[dict(name="TestC01", quick=3200, thorough=80000)],
    ),
}
