# Per-property configuration of the driver (tests, case counts per tier, evidence rule, level).
CHECKS = {
    "C01": dict(
        level="exploration",
        rule="rapid draws (picture recipe: size x content class x alpha class x Go image type x placement) x (Quality, Method, Exact, metadata); "
             "oracle: Decode(Encode(img)) equals the source read through image.Image as NRGBA. Non-trivial: picture has >=2 distinct pixels; "
             "distinct = (colour-count class, alpha class, size class, Go type, Method, Quality band, Exact) signatures.",
        assumptions=["rapid v1.3.0 generation and shrinking", "premultiplied *image.RGBA sources with 0<a<255 are compared within +-1 on RGB (un-multiplication is not uniquely defined)"],
        tests=[dict(name="TestC01", quick=40000, thorough=80000)],
    ),
    "C02": dict(
        level="exploration",
        rule="rapid draws picture recipe x full EncoderOptions product (lossy and lossless, presets, partitions, segments, passes, targets, filters, alpha triple, metadata subsets); "
             "oracle: independent RIFF/VP8/VP8L structural validator (riffwalk) + declared size/alpha/partition count vs request + package readers accept + libwebp 1.2.4 (dlopen) and golang.org/x/image "
             "decode the same bytes to the same samples as webp.Decode (Y/U/V planes for lossy, RGBA via a reference fancy upsampler for lossy+alpha, ARGB for lossless). "
             "Non-trivial: >=2 colours; distinct = (codec, Method, metadata presence/parity, payload parities, partitions, segments, filter type/level0, Pass, target mode, sharp, preprocessing). "
             "(write faults) for a sixth of the cases Encode is repeated with writers that fail after k bytes (k = 0, 1, 11, 12, 19, 20, 29, 30, len-2, len-1 and one drawn position): Encode must not return nil once the writer has failed. "
             "(limits) TestC02Limits: noise pictures of 70,000-160,000 macroblocks (long side up to 16383) at Quality 35-80, Method 3-6, so that partition 0 lies between ~320 KB and ~740 KB, i.e. on both sides of the frame tag's 19-bit length field; thorough also 16383 x 3600-4300 at Quality 100 with 2-4 partitions so that a token partition exceeds its 24-bit size field. Encode may refuse (counted encode=refused); a nil error must come with a file that validates and that all three decoders accept identically.",
        assumptions=["libwebp.so.7 (1.2.4) and x/image as independent decoders; a case where they disagree with each other is counted inconclusive, never a violation",
                     "riffwalk strictness = what a conforming writer must respect (chunk order VP8X,ICCP,ANIM,image,EXIF,XMP; flags <=> chunks; pad bytes zero)"],
        tests=[dict(name="TestC02", quick=16000, thorough=150000), dict(name="TestC02Limits", quick=4, thorough=32, shards=4)],
    ),
    "C07": dict(
        level="exploration",
        rule="rapid draws pictures biased to transparency (binary, few levels, gradient, noise, semi-transparent flat, fully transparent) x lossy options incl. AlphaCompression/AlphaFiltering/AlphaQuality/Method/Exact; "
             "oracle: AlphaQuality 100 => decoded alpha == source alpha exactly; opaque source => no ALPH/flag and opaque decode; AlphaQuality<100 => #levels <= documented mapping and min/max preserved; libwebp's alpha equals the package's. "
             "Also the skip-heavy class of C06 (4 % of the cases) and the holes alpha class. Non-trivial: >=2 source alpha levels; distinct = (alpha class, level-count bucket, ALPH method x filter chosen, Method, quantised or not).",
        assumptions=["documented level mapping: 2+q/5 for q<=70, 16+(q-70)*8 above (internal/lossy/alpha.go comment)"],
        tests=[dict(name="TestC07", quick=32000, thorough=90000)],
    ),
    "C15": dict(
        level="exploration",
        rule="rapid draws blobs (nil, empty, 1 byte, odd, even, chunk-like tokens, up to 70 KB) for every subset of ICC/EXIF/XMP x every source image type and placement x {lossy, lossy+alpha, lossless, lossless+alpha stills; 1-4 frame lossy/lossless animations, and 1 animation in 40 with 500-2100 frames of a tiny canvas}; "
             "oracle: riffwalk validates; blobs byte-exact in the file, via Demuxer.GetChunk and via animation.DecodeBytes; flags <=> chunks; image/ALPH chunk bytes and decoded pixels/playback identical with and without metadata; thorough adds the 100 MB cap (+1 rejected, exactly 100 MB accepted and read back). "
             "(arena) in a third of the cases the three blobs are consecutive sub-slices of one buffer (spare capacity behind each, the next blob directly behind the previous one): same oracle, and the blobs' bytes in that buffer must be unchanged afterwards. Non-trivial: >=1 non-empty blob; distinct = (kind, subset+parities, codec, alpha, frame count).",
        assumptions=["an empty (zero-length) blob may be stored as an empty chunk or omitted; both accepted"],
        tests=[dict(name="TestC15", quick=2400, thorough=32000), dict(name="TestC15Limit", quick=1, thorough=1, shards=1, thorough_only=True, no_replay=True)],
    ),
    "C19": dict(
        level="exploration",
        rule="rapid draws an NRGBA picture and 3-6 equivalent presentations (sub-image of a larger garbage-filled parent, non-zero Rect.Min, stride padding with garbage, generic image.Image wrapper, *image.RGBA for opaque pictures) x lossy/lossless options; a third of the cases also store the picture in a standard-library image type (NRGBA64, RGBA64, Gray, Gray16, Paletted, CMYK, Alpha, YCbCr 4:4:4/4:2:2/4:2:0/4:4:0/4:1:1/4:1:0) at any origin parity and require the bytes of an *image.NRGBA at the origin holding the colours that image yields; "
             "oracle (metamorphic): all presentations give byte-identical files from a pool-flushed state; changing only out-of-bounds bytes changes nothing; SHA-256 of the caller's whole backing buffer unchanged. "
             "Padded-stride presentations include strides that are not a multiple of four (4*w + 1, 2, 3, 5, 6, 13 bytes). Non-trivial: >=2 colours and >=3 presentations; distinct = (codec, alpha, Exact, sharp, preprocessing, Method, presentation list).",
        assumptions=["sync.Pool state is normalised (runtime.GC x2) before each compared encode; history dependence is C11's subject"],
        tests=[dict(name="TestC19", quick=1200, thorough=16000)],
    ),
    "C20": dict(
        level="exploration",
        rule="rapid draws option sets with 1-3 fields overwritten by boundary/out-of-range/extreme values (incl. NaN, +-Inf, MinInt, MaxInt), sentinel substitutions, lossy-only fields under Lossless, EmulateJpegSize toggles, nil options, nil writer/image, boundary image sizes (0, 1, 16383, 16384); "
             "oracle: never panics; documented-invalid => error and nothing written; documented-valid => success + C02 structural validator + decodes; sentinel == documented default byte for byte; lossy-only options do not change lossless bytes; nil options == DefaultOptions(). "
             "A third of the sentinel comparisons run under rate control (48-128 px busy picture, TargetSize 300-20000 or TargetPSNR 24-46). Non-trivial: every case (each sits on a boundary or relation); distinct = (mode, field, boundary kind).",
        assumptions=["documented ranges = EncoderOptions field comments; Segments/Pass 0 count as 'use default' as validateConfig documents"],
        tests=[dict(name="TestC20", quick=6400, thorough=80000)],
    ),
    "C04": dict(
        level="exploration",
        rule="three stream sources: (gen) VP8 key frames written by /verif's boolean encoder: rapid-chosen header syntax (segment map/data abs/delta, per-segment quantiser/filter, simple/normal filter, level, sharpness, ref/mode deltas, 1-8 partitions, base q and 5 deltas, coefficient-probability updates, skip probability, profile 0-3) followed by random mode bits and random token partitions (optionally sparse); "
             "(gen+alph) the same plus a raw ALPH plane with filter 0-3; (gen+alphl) the same plus an ALPH payload compressed with a /verif-generated VP8L stream (all transforms, caches, code shapes; filter 0-3, pre-processing bit); (libwebp) pictures encoded by libwebp 1.2.4 at random quality (its ALPH methods/filters). "
             "Oracle: Y/U/V planes (or RGBA with alpha) bit-exact vs libwebp AND x/image (both must accept and agree, else the case is inconclusive); RGBA confirmed by a reference fancy upsampler. "
             "Non-trivial: truth established by two agreeing witnesses; distinct = header-feature signature. "
             "Thorough adds a native coverage-guided campaign (FuzzC04) over raw key-frame bytes (<=16384 pixels; partitions starting with 0xff excluded as in the generator): whenever x/image and libwebp (given the bare bitstream, so that it cannot read a RIFF pad byte) accept and agree on all planes, the package must accept and agree.",
        assumptions=["libwebp 1.2.4 and golang.org/x/image/vp8 agreeing with each other define the format's samples", "streams all witnesses reject or disagree on are excluded and counted (inconclusive)"],
        tests=[dict(name="TestC04", quick=24000, thorough=640000)],
        fuzz=[dict(name="FuzzC04", seconds=180)],
    ),
    "C06": dict(
        level="exploration",
        rule="rapid draws pictures (incl. non-multiples of 16, >=4 macroblock rows, and 5% large pictures of 400-640 x 336-640 = 525-1600 macroblocks made of one texture with 1-3 outlier blocks, so that rounded segment/skip probabilities saturate) x the lossy option product (targets, passes, presets, segments, partitions, sharp YUV, dithering) x GOMAXPROCS {1,2,3,4,8} (serial and row-parallel encoder); 7 % of the cases are 160-336 px pictures (100-440 macroblocks) with flat bars (letterbox) or other content and a TargetSize/TargetPSNR with 2-6 passes; the verif-tagged FrameEncoded hook copies the encoder's reconstruction after every pass (last one kept). "
             "Oracle: vendored x/image/vp8 with the loop filter skipped == reconstruction; package decoder with NoLoopFilter hook == reconstruction; when the stream's filter level is 0 the plain public Decode == reconstruction; decoded size == source size. "
             "(skip-heavy class, 6 % of the cases) 97-1200 macroblocks in 1-3 rows, 1-3 columns or a squarish grid, flat ground with 0-3 small textured patches, Quality 0-12, rate-control target kept in half of them: nearly every macroblock is skipped, the skip/segment probabilities round to 0 or 255 and the mid-frame probability refreshes see no new statistics. All content classes may carry a channel relation (grey, green-only, red = blue). Non-trivial: >=2 colours; distinct = (serial/parallel path, Method, segments, filter off, pass count, sharp, target mode, preprocessing).",
        assumptions=["the hook observes the planes the encoder used as prediction reference (encoder writes its reconstruction into its Y/U/V planes)", "vendored x/image/vp8 + SkipLoopFilter switch as independent pre-deblocking decoder"],
        tests=[dict(name="TestC06", quick=12000, thorough=60000)],
    ),
    "C05": dict(
        level="exploration",
        rule="inputs: 1-4 rapid-drawn mutations (bit flips, hostile byte values, chunk size-field rewrites incl. 0/1/odd/len+-k/0x7fffffff/0xffffffff, dimension rewrites, chunk delete/duplicate/move, FourCC swaps, truncation, random tails, inserts, 0x00/0xff runs, splices across seeds) of ~25 small valid files (package encoder: lossy 1/4/8 partitions, lossy+alpha raw/compressed/quantised, lossless, metadata; animation encoder lossless/lossy/mixed; muxer; /verif's VP8 and VP8L generators incl. predictor modes 14/15 and 15-bit codes; libwebp-written; repo testdata; valid pictures of more than 100,000 pixels that are 9-12 pixels high or wide; 14-frame animations), freshly generated free-mode VP8L/VP8 streams (intact or mutated), a multi-damage mutation that makes several frames of one file undecodable at once, 14-frame animations, GOMAXPROCS drawn from {as is,1,2,3,4} per case (worker counts of the frame-parallel reader), random bytes behind a valid magic, and container programs with lying size fields. "
             "Every input goes through Decode, DecodeConfig, GetFeatures, image.Decode/DecodeConfig, animation.DecodeBytes+DecodeFrames+DecodeFramesParallel+AnimDecoder playback, mux.NewDemuxer+Frame(i)+GetChunk+iterator. "
             "Oracle: no panic, returns within a watchdog limit of 30 s + 1 ms per 20,000 declared pixels (an expiry must reproduce with six times that limit before it counts), well-formed results (positive bounds, buffers large enough), bytes allocated <= 64 MiB + 64 x (input length + 4 x declared pixels). "
             "The same inputs also go through mux.ReadChunkHeader/ReadChunk (walked chunk by chunk and at odd offsets: a success must describe bytes that exist), animation.Decode and the header queries through one of six other legal io.Reader behaviours (must agree with the bytes.Reader results), and AnimDecoder.Reset + replay (same number of canvases). "
             "(scaling) TestC05Scaling: a VP8X file made of 1-3 chunk kinds (empty/short ALPH, unknown, ICCP/EXIF/XMP, repeated VP8X/ANIM, broken VP8, tiny VP8L, ANMF empty/with ALPH/with unknown sub-chunk/complete) repeated n and 4n times (n = 3000..9000), optionally with the only image chunk at the very end; process CPU time of all entry points must not grow faster than the input: a violation needs >= 2 s CPU for the large file and more than 10x the small file's time, twice in a row. "
             "Non-trivial: input still carries the RIFF/WEBP magic; distinct = (source, seed, mutation kinds, which entry points accepted). Thorough adds a native coverage-guided fuzz campaign over the same entry points.",
        assumptions=["inputs declaring more than 2^22 pixels are run through the header-only entry points (counted as skipped_huge_declared)",
                     "allocation measured with runtime.MemStats.TotalAlloc in a single-goroutine test process"],
        tests=[dict(name="TestC05", quick=60000, thorough=800000, env=dict(VERIF_WANT_LASTCASE="1")),
               dict(name="TestC05Scaling", quick=320, thorough=4800)],
        fuzz=[dict(name="FuzzC05", seconds=240, hang_is_violation=True)],
    ),
    "C17": dict(
        level="fault_enumeration",
        rule="files: rapid-drawn pictures encoded by the package (lossy with 1/2/4/8 partitions, lossless, lossy+alpha raw/compressed, with/without ICC/EXIF/XMP before and after the image, plus a trailing unknown chunk), by libwebp 1.2.4, and /verif-generated VP8 frames; for EVERY file EVERY proper prefix length 0..len-1 is enumerated (the fault = truncation point). "
             "Each prefix is read through a bytes.Reader and through one of six other legal reader behaviours (rotating with the prefix length). Oracle: Decode(prefix) is an error or an image identical in type, bounds and samples to the full decode; DecodeConfig/GetFeatures(prefix) is an error or equal in all fields to the complete file's. "
             "File kind bigdims: one side 256..16383 (header fields that use their upper bits), compressible content; when file length x picture size exceeds 6e7 the prefixes are thinned to the first 160 bytes, +-3..11 bytes around every chunk boundary, the last 40 bytes and 96 even cuts. Every third prefix is also delivered by a source that fails with an error after the prefix instead of ending. Non-trivial: every file (all its cut points inside chunk payloads are visited); distinct = (source, chunk layout + partition count, decoded type). prefixes_checked counts the enumerated truncation points.",
        assumptions=["files the package's Decode rejects in full are outside the property's domain and counted inconclusive"],
        tests=[dict(name="TestC17", quick=3200, thorough=12000)],
    ),
    "C09": dict(
        level="exploration",
        rule="three parts. (random) rapid draws animation.Animation values directly: canvas 1..12 (thorough ..32), 1-9 frames with rectangles full / inside / overhanging the right-bottom edge, blend x dispose, opaque/semi/transparent/mixed/edge-value content, HasAlpha flags that never understate, NRGBA and generic frame images, Animation.BackgroundColor zero/opaque/translucent (documented: never painted). "
             "(bounded-exhaustive) every frame list of length <=3 (thorough <=4) over an 84-frame alphabet on a 2x2 canvas (4 rectangles incl. overhanging x blend x dispose x 4 alpha patterns x consistent HasAlpha). "
             "(blend sweep) for sampled (thorough: all 65536) (src alpha, dst alpha) pairs, one 256x256 composite covering all 65536 (src channel, dst channel) combinations. "
             "Oracle: /verif's key-frame-free reference compositor (transparent start, dispose previous rectangle clipped, overwrite or libwebp-documented integer blend; exact value also accepted where src alpha=255 or dst alpha=0); Reset replays identically; returned snapshots never change (SHA-256); Canvas() equals the last snapshot. "
             "Non-trivial: list contains a disposal followed by a blended frame, or a frame the decoder's key-frame shortcut accepts at index>0; distinct = per-frame (full, blend, dispose, hasalpha) history; each swept alpha pair counts once.",
        assumptions=["frame offsets non-negative; HasAlpha never understates (what the demuxer guarantees)", "blend arithmetic = libwebp's BlendPixelNonPremult, which the package documents"],
        tests=[dict(name="TestC09", quick=40000, thorough=160000), dict(name="TestC09Exhaustive", quick=16, thorough=16, no_replay=True), dict(name="TestC09Blend", quick=16, thorough=16, no_replay=True)],
    ),
    "C08": dict(
        level="exploration",
        rule="rapid draws frame sequences for the lossless animation encoder: canvas 1..24 (thorough ..64; 1 in 40 sequences 64..220 px per side with <= 4 frames), sprite-like pictures with fully transparent margins, a first picture that may be smaller than the canvas, 1-8 (..14) pictures each derived from the previous one (identical / scattered small-rectangle edit / single pixel / large edit / alpha-only edit / border edit / smaller-than-canvas picture / new picture) over opaque, binary, flat semi-transparent, few-level, gradient, noise and fully transparent content; durations small, zero-mixed, or near 2^24-1 with sums crossing it; Kmin/Kmax in {0,1,2,3,5,9,100,1000}; loop counts incl. >65535 and <0; EncodeOptions.BackgroundColor from {zero, opaque, translucent, alpha 1, coloured alpha 0}; Quality in {0,50,75,100}. "
             "Oracle: expected timeline = input canvases (smaller pictures at (0,0) on transparent) with consecutive identical ones merged; actual = DecodeBytes+DecodeFrames+AnimDecoder snapshots merged the same way; pictures equal in order (alpha-0 pixels equal whatever their colour), canvas size equal, and with >=2 distinct pictures per-picture display time, total duration and (clamped) loop count equal; every file passes riffwalk. "
             "Non-trivial: >=2 distinct pictures and a sub-frame, merged duplicate or forced key frame; distinct = (alpha class, edit kinds, Kmin/Kmax, blend/dispose modes in the file, sub-frame/merge/filler seen).",
        assumptions=["frame durations are generated in 0..2^24-1 ms (a single duration above the container's 24-bit field cannot be stored)"],
        tests=[dict(name="TestC08", quick=32000, thorough=64000)],
    ),
    "C18": dict(
        level="exploration",
        rule="rapid draws frame sequences (canvas 1..24, thorough ..56; 1 in 40 sequences 64..220 px per side; sprite-like pictures with transparent margins) with binary, few-level, gradient, noise, flat semi-transparent and coloured-transparent alpha x Lossless {false,true} x AllowMixed {false,true} x Quality {0,30,75,95,100} x keyframe settings; durations >= 1 ms. "
             "Oracle: input and playback are compared as step functions of presentation time: every played-back canvas that is on screen during an input picture's interval has exactly that picture's alpha channel; total duration and canvas size equal (a single picture stored as a still must carry that alpha). "
             "Non-trivial: a non-opaque pixel exists and the file contains a lossy (VP8) frame; distinct = (mode pair, alpha class, codecs emitted, sub-frames, length).",
        assumptions=["lossy pictures are not exact, so frames are aligned by time, not by picture equality"],
        tests=[dict(name="TestC18", quick=20000, thorough=40000)],
    ),
    "C14": dict(
        level="exploration",
        rule="rapid draws Muxer call sequences (1-14 ops; an AddFrame may be repeated 200-10001 times: long animations around the 1000-chunk and 10000-frame limits): AddFrame with real VP8/VP8L bitstreams from a pool of 35 (lossy, lossless, lossy with compressed and raw ALPH prefix, VP8L with alpha bit; odd and even payload lengths) and FrameOptions (nil; offsets even/odd; durations incl. 0, >2^24-1 and negative = documented clamping; blend; dispose), SetFrameDisposeMode/SetFrameDuration on valid and invalid indices, SetCanvasSize (incl. 0, clamped values), SetLoopCount (clamped), SetBackgroundColor, SetICCProfile/SetEXIF/SetXMP/AddChunk with nil/empty/odd/even/chunk-like/format-signature blobs and lengths around powers of two (2^k-9..2^k+9, k<=12); half of the cases hand every payload over as a plain sub-slice of ONE buffer (back to back, so that a slice's spare capacity covers the next payload) and require that buffer to be unchanged afterwards; then Assemble (and, for accepted states, Assemble again into writers that fail after k bytes: it must report the failure). "
             "Oracle: a model of the muxer state predicts acceptance and structure. Accepted: riffwalk validates the file; mux.Demuxer AND container.Parser return the same bitstreams and ALPH payloads byte for byte, offsets rounded down to even, clamped durations, blend/dispose, loop count, background colour, canvas, metadata; GetFeatures agrees; stills decode to the same pixels as their bitstream alone. Rejected: an error, and nothing that parses as a complete file was written; consistent states must not be rejected, frames outside the canvas must be. "
             "The FrameIterator must yield exactly Frame(0..n-1) and then report the end; Frame(-1) and Frame(n) must fail. Non-trivial: alpha-prefixed frame, >=2 frames or metadata; distinct = (animated, frame count, setters used, payload parities, fits).",
        assumptions=["offsets non-negative; canvas area kept below the package's 2^30-pixel reader cap; for stills with an explicit canvas different from the picture the strict still-canvas rule of riffwalk is not applied"],
        tests=[dict(name="TestC14", quick=64000, thorough=600000)],
    ),
    "C16": dict(
        level="exploration",
        rule="well-formed files from four sources: Encode outputs (all codecs, alpha, metadata), AnimEncoder outputs (lossless/lossy/mixed), and hand-assembled containers written by /verif's riffgen: VP8X stills with/without ALPH incl. a zero-length ALPH, ICCP/EXIF/XMP before or after the image, unknown chunks, feature flags over- or under-stating the optional chunks (canvas == image size), and VP8X animations (ANIM + 1-5 ANMF frames inside the canvas, ALPH/VP8/VP8L sub-chunks, unknown chunks between/inside frames). "
             "Oracle: GetFeatures, DecodeConfig, mux.Demuxer and animation.DecodeBytes all accept and agree on canvas size, animation flag, frame count and (animated) loop count; for stills Decode accepts: header width/height == decoded bounds, DecodeConfig.ColorModel == decoded image's ColorModel(), format name matches the first chunk, package-written files set the alpha flag whenever a decoded pixel is not opaque, image.Decode/image.DecodeConfig report \"webp\" and the same results; DecodeConfig, GetFeatures, Decode and image.DecodeConfig give the same answers when the file arrives through another legal io.Reader (one byte per Read, half reads, data together with io.EOF, 16-byte and 4096-byte buffered readers, no Len method). "
             "Non-trivial: every file; distinct = (source, format, animated, chunk layout with empty/odd markers). "
             "One riffgen case in six carries an ICCP / EXIF-first / unknown chunk of 4 KiB-1 MiB (+-40 bytes around powers of two) in front of the image data. Thorough adds a native coverage-guided campaign (FuzzC16): bytes that the strict container validator accepts as a well-formed file go through the same cross-view comparison.",
        assumptions=["the harness binary links no other decoder registering the webp format (x/image/webp is vendored without its init)"],
        tests=[dict(name="TestC16", quick=48000, thorough=400000)],
        fuzz=[dict(name="FuzzC16", seconds=120)],
    ),
    "C12": dict(
        level="exploration",
        rule="rapid draws pictures sized to engage each parallel site (lossy: >=4 macroblock rows; lossless: >50,000 px for the hash chain and tile-parallel predictor/cross-colour/histogram code, >=100,000 px for the parallel inverse cross-colour and ARGB conversion in the decoder; small pictures too) x lossy/lossless options; for GOMAXPROCS drawn from {1,2,3,4,5,6,7,8,12,16,32} (always including 1) Encode bytes (from a flushed-pool state) and Decode pixels must be equal for all values; the large lossless classes also come in extreme shapes (long side 1200..16000). (animation) generated frame sequences are encoded by the animation encoder and read back with DecodeFramesParallel at each GOMAXPROCS: file bytes and every decoded frame must be equal. "
             "On a difference the verif-tagged Workers hook re-runs with single sites pinned to one worker to attribute it to a call site (known findings are keyed by site). "
             "A third of the lossy cases run their multi-worker encodes under a drawn delay plan (Gosched x1-20 or 1-200 us sleeps at the row pipeline's six hook points, per row class): the bytes must equal the GOMAXPROCS=1 bytes however the extra workers interleave. Content may carry a channel relation (grey, green-only, red = blue); alpha classes incl. noise and levels. Non-trivial: at least one parallel site saw more than one worker (hook; for animations the frame-parallel decoder with >=2 frames); distinct = (codec, sites engaged, Method, size class).",
        assumptions=["runtime.GOMAXPROCS(n) inside one process stands for a process started with that setting", "pool state normalised before each compared encode"],
        tests=[dict(name="TestC12", quick=480, thorough=4000), dict(name="TestC12Anim", quick=960, thorough=16000)],
    ),
    "C11": dict(
        level="exploration",
        rule="rapid draws call histories (3-14 steps, thorough 3-25) over Encode (lossy/lossless, sizes drawn from three per-history sizes so that equal macroblock counts recur, jittered pixel sizes with the same macroblock count, NRGBA/RGBA/generic sources, assorted options incl. targets), Decode and DecodeConfig/GetFeatures of seed files (intact, truncated, bit-flipped: errors must not poison pools), animation-encoder runs (lossless/lossy/mixed), animation playback, and Muxer runs (1-4 frames from C14's bitstream pool with offsets/durations/blend/dispose and an EXIF blob, assembled and read back through a Demuxer); a fifth of the histories are decoder-focused: mostly decodes of freshly generated VP8 (or VP8L) streams that share the history's sizes. "
             "The history runs with the GC disabled (pooled objects survive); every previously returned value and caller-owned input is re-hashed after every later call. Oracle: each call's result equals the result of the same call from a flushed-pool (fresh) state. "
             "Op frameenc: the exported frame-codec hooks animation.FrameEncoderFunc / SimpleEncodeFunc called directly (what the muxer and other callers keep while later frames are encoded); their results are retained and re-checksummed like every other result. Non-trivial: the verif-tagged Pool hook saw at least one pool hit during the history; distinct = sequence of (previous op -> op) pairs.",
        assumptions=["runtime.GC() twice empties every sync.Pool, standing for a fresh process", "results are compared through digests (bytes; image type+bounds+samples; error text)"],
        tests=[dict(name="TestC11", quick=800, thorough=10000)],
    ),
    "C10": dict(
        level="exploration",
        rule="(schedules) for the row-pipelined lossy encoder rapid draws a perturbation plan for the verif-tagged Yield hook (sites: row claim, wait entry, wait after registering as waiter, signal entry, signal after storing progress, before export; per row class; runtime.Gosched x1-20 or sleep 1-200 us) and a worker count 2-6 (Workers hook) on pictures with >=4 macroblock rows, Method 3-6; oracle: bytes equal the same pipelined encode with ONE worker and no perturbation; a 90 s watchdog turns a deadlock/lost wake-up into a reported hang with a goroutine dump. "
             "(concurrent API) 2-10 goroutines run generated call lists (Encode lossy/lossless, Decode/DecodeConfig/GetFeatures of intact and damaged files, animation encode and playback) at GOMAXPROCS 2-16 sharing the internal pools; oracle: every result equals the result of the same call run alone from a fresh state; returned values stay intact. "
             "(lossless sections) pictures above the 50,000-pixel threshold (collage/tiled/photo/palette content, Quality>=90 bias) are encoded and decoded by 1-3 goroutines at GOMAXPROCS 3-16 and compared with the result obtained with every parallel section pinned to one worker (Workers hook). "
             "(fresh process) the test binary re-executes itself per case; in the new process the generated calls (2-8 goroutines, often identical, Encode with freely drawn options incl. SharpYUV/targets/lossless, decodes, animations) are the FIRST use of the package and run concurrently, so every lazily initialised table or pool is initialised under contention; the child then computes the stand-alone results and compares. "
             "All parts also run under the Go race detector (any DATA RACE report is a violation). "
             "Non-trivial: >=4 rows claimed by the pipeline, or >=2 goroutines with at least one pool hit, or a fresh-process case that reached a verdict; distinct = (plan kinds, worker count, Method) / (goroutines, procs, op mix, calls).",
        assumptions=["the Go scheduler is perturbed at the hooked points and by GOMAXPROCS/load, not enumerated: an interleaving inside an unhooked critical region can be missed", "race detector findings depend on the schedules that actually occur"],
        tests=[dict(name="TestC10Sched", quick=320, thorough=16000), dict(name="TestC10Conc", quick=64, thorough=4000),
               dict(name="TestC10Lossless", quick=64, thorough=3000),
               dict(name="TestC10Sched", quick=32, thorough=1200, variant="race"), dict(name="TestC10Conc", quick=16, thorough=640, variant="race"),
               dict(name="TestC10Lossless", quick=16, thorough=600, variant="race"),
               dict(name="TestC10Fresh", quick=240, thorough=4000), dict(name="TestC10Fresh", quick=48, thorough=320, variant="race")],
    ),
    "C13": dict(
        level="exploration",
        rule="the same rapid-generated cases (same seed) are evaluated by three builds/settings of the package - AVX2 (default on this machine), SSE2 only (verif-tagged WEBP_VERIF_NOAVX2=1 switch) and portable Go (go build -overlay that removes every *_amd64.go/.s file and enables the !amd64 files) - and their result digests are compared line by line. "
             "(pipeline) pictures x lossy/lossless option product -> Encode bytes + Decode samples; /verif-generated VP8 frames (incl. extreme coefficients) -> Decode samples. "
             "(kernels) 40 internal/dsp and internal/lossy entry points (SSE/disto metrics, forward/inverse DCT and WHT in encoder and decoder forms, all 16x16/8x8/4x4 predictors and their direct forms, add/subtract green, inverse cross-colour, simple and complex loop filters at all thresholds, fancy upsampler incl. odd widths, dequantisation, YUV->RGB) on uniform-random, corner-value (0/1/127/128/254/255, +-2048, +-32767) and natural input blocks; decoder-side kernels get arbitrary int16 coefficients, encoder-side kernels coefficients in the range residuals of 8-bit pictures can produce. "
             "(compilation) go build of every library package for a list of GOOS/GOARCH pairs (thorough: all pairs of `go tool dist list`). "
             "Non-trivial: kernel output not all zero / any pipeline case; distinct = (kernel, input class, mode) and (codec, Method, size class, source type).",
        assumptions=["arm64 (and any non-amd64) assembly can only be compiled here, not executed; 32-bit int behaviour is compiled, not executed",
                     "encoder-side inverse transforms are only required to agree on coefficient ranges an 8-bit picture can produce"],
        tests=[],
        variants=[dict(name="avx2", variant="", env={}), dict(name="sse2", variant="", env={"WEBP_VERIF_NOAVX2": "1"}), dict(name="portable", variant="noasm", env={})],
        differential=[dict(test="TestC13Pipe", quick=1600, thorough=40000), dict(test="TestC13Kern", quick=48000, thorough=2000000)],
        compile_matrix=dict(quick=["linux/386", "linux/arm", "linux/arm64", "linux/s390x", "linux/riscv64", "linux/ppc64le", "windows/amd64", "windows/386", "darwin/arm64", "js/wasm", "freebsd/amd64", "linux/mips"], thorough="all"),
    ),
    "C03": dict(
        level="exploration",
        rule="two stream sources. (gen) VP8L bitstreams written by /verif's own generator from the lossless specification: any subset and order of the four transforms (each at most once) with tile bits 2-9, palette sizes {1,2,3,4,5,16,17,100,255,256} (all packings), predictor modes 0-13 per tile (rarely 14/15), random cross-colour multipliers; colour cache bits 0-11; optional meta prefix image with prefix bits 2-9 and 1-1100 groups incl. an unreferenced group; prefix codes in simple (1-2 symbols, 1- and 8-bit form, either transmission order) and normal form (complete length-limited codes <=15 from balanced, random and deep trees - deep: padded with never-occurring symbols so that 13-15-bit codewords are used by the occurring symbols -, single-symbol codes, code-length code with 16/17/18 repeat tokens and the max_symbol form); pixel stream of literals, colour-cache hits and backward references with every plane distance code 1-120 and linear distances, lengths up to 4096 incl. overlapping copies (a long-copy class draws lengths uniformly up to 4096); sub-images with their own caches and references; trivial groups (all five codes single-symbol, zero bits per pixel) next to ordinary groups; sizes <=40 (thorough <=96) px per side, 1 stream in 120 (thorough 50) of >= 100,000 pixels in ordinary, very wide and very tall shapes, 1 in 80 with the format's largest side (16384, 16383, 8193, ...) x 1-3. (libwebp) pictures encoded by libwebp 1.2.4's lossless encoder. "
             "Oracle: webp.Decode must accept and return exactly the ARGB that libwebp AND x/image/vp8l return (both must accept and agree; otherwise the case is inconclusive); for libwebp-encoded pictures also the source pixels. "
             "Non-trivial: stream has a transform, backward reference, cache hit or more than one group; distinct = (transform order with tile bits/palette class, cache bits, meta bits/groups, code style, feature set). "
             "Every generated stream is also put through /verif's strict VP8L syntax validator (an independent reading of the syntax; disagreements are counted). Thorough adds a native coverage-guided campaign (FuzzC03) over raw VP8L bytes (<=16384 pixels, seeded with 48 generated streams): bytes that the strict validator accepts AND that x/image (consulted first: memory-safe) and then libwebp decode to the same pixels must be accepted by the package with the same pixels; a saved input only counts if it fails again when run alone.",
        assumptions=["libwebp 1.2.4 and golang.org/x/image/vp8l agreeing with each other define the decoded pixels", "streams are 'free mode': what they decode to is defined by the references, not known by construction"],
        tests=[dict(name="TestC03", quick=24000, thorough=200000)],
        fuzz=[dict(name="FuzzC03", seconds=180)],
    ),
}
