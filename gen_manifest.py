#!/usr/bin/env python3
"""Writes MANIFEST.json from checks_cfg.py + manifest_meta.py (keeps the manifest valid at all times)."""
import json, os, sys
sys.path.insert(0, os.path.dirname(os.path.abspath(__file__)))
from checks_cfg import CHECKS
from manifest_meta import META, HOOK_COMMITS, NOT_YET
ids = [json.loads(l)['id'] for l in open('/verif/properties.jsonl')]
checks = []
for pid in ids:
    if pid not in CHECKS or pid in NOT_YET:
        continue
    c = CHECKS[pid]; m = META[pid]
    checks.append(dict(property_id=pid, quick_cmd="./check %s quick" % pid, thorough_cmd="./check %s thorough" % pid,
                       evidence_file="/verif/evidence/%s.json" % pid, replay_cmd_template="./check %s --replay {path}" % pid,
                       engine="pbt-harness", level_claimed=dict(category=c["level"], text=m["text"], design_ref=m["design_ref"]),
                       level_note=m["note"], technique=m["technique"]))
na = [dict(property_id=p, reason=NOT_YET.get(p, "check not built yet in this session; planned in DESIGN.md section 7")) for p in ids if p not in CHECKS or p in NOT_YET]
man = dict(version=1,
           setup_cmd="cd /verif && ./setup.sh",
           hooks=dict(guard="verif", enable="go test -c -tags verif (harness module /verif/harness with replace github.com/deepteams/webp => /repo)",
                      baseline_off_cmd="cd /repo && export PATH=/root/go/pkg/mod/golang.org/toolchain@v0.0.1-go1.24.2.linux-amd64/bin:$PATH GOFLAGS=-mod=mod GOPROXY=off && go test -json -vet=off -count=1 -timeout 25m ./...",
                      source_commits=HOOK_COMMITS, add_only=True),
           engines=[dict(name="pbt-harness", path="/verif/harness", serves_properties=[c["property_id"] for c in checks],
                         kind_free_text="Go test binary of rapid v1.3.0 properties/state machines and bounded enumerations, built against /repo's working tree with -tags verif; sharded by seed over 16 processes by /verif/check (python3 driver) which merges counters into evidence/<id>.json")],
           checks=checks, not_applicable=na,
           notes="All checks: ./check <ID> quick|thorough ; replay: ./check <ID> --replay <file>. known_findings.json lists genuine defects (open/fixed). DESIGN.md explains oracles and limits.")
json.dump(man, open('/verif/MANIFEST.json', 'w'), indent=1)
print("claimed", len(checks), "not_applicable", len(na))
