# sourced by every script: offline Go toolchain environment (DESIGN.md section 2)
VERIF_ROOT="$(cd "$(dirname "${BASH_SOURCE[0]}")" && pwd)"
TC=/root/go/pkg/mod/golang.org/toolchain@v0.0.1-go1.24.2.linux-amd64/bin
if [ -x "$TC/go" ]; then
  export PATH="$TC:$PATH" GOTOOLCHAIN=local
else
  export GOTOOLCHAIN=auto
fi
export GOFLAGS=-mod=mod GOPROXY=off CGO_ENABLED=1
