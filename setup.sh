#!/bin/bash
# Offline setup: pre-builds the harness test binaries (warms the Go build cache). No network.
set -e
cd "$(dirname "$0")"
. ./env.sh
cd harness
go test -c -vet=off -tags verif -o /dev/null ./props
go test -c -vet=off -tags verif -race -o /dev/null ./props || echo "race build unavailable (checks fall back at run time)"
echo "setup ok: $(go version)"
