#!/bin/bash
# Offline setup: pre-builds the harness test binary (warms the Go build cache). No network.
set -e
cd "$(dirname "$0")"
. ./env.sh
cd harness
go test -c -vet=off -tags verif -o /dev/null ./props
echo "setup ok: $(go version)"
