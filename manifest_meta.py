HOOK_COMMITS = []
NOT_YET = {}
META = {
 "C01": dict(design_ref="DESIGN.md section 7 C01", technique="property-based round trip (rapid), source pixels as oracle",
   text="Generated-input search: thousands of generated pictures (all Go image types, placements, palette/alpha classes, sizes incl. tile boundaries) x lossless options are encoded and decoded; every pixel is compared with the source. Finds any reachable round-trip loss in the sampled domain; does not prove absence.",
   note="Trusts Go's image/color conversions for reading the source, rapid's generators, and the in-process webp.Decode as the decoder under test (decoder/encoder cancelling errors are covered by C02/C03 via libwebp)."),
}
