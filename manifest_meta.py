HOOK_COMMITS = []
NOT_YET = {}
META = {
 "C01": dict(design_ref="DESIGN.md section 7 C01", technique="property-based round trip (rapid), source pixels as oracle",
   text="Generated-input search: thousands of generated pictures (all Go image types, placements, palette/alpha classes, sizes incl. tile boundaries) x lossless options are encoded and decoded; every pixel is compared with the source. Finds any reachable round-trip loss in the sampled domain; does not prove absence.",
   note="Trusts Go's image/color conversions for reading the source, rapid's generators, and the in-process webp.Decode as the decoder under test (decoder/encoder cancelling errors are covered by C02/C03 via libwebp)."),
 "C02": dict(design_ref="DESIGN.md section 7 C02", technique="property-based testing with structural validator + 3-way differential decoding (libwebp, x/image)",
   text="Generated-input search over images x the whole option product; every successful Encode is checked by an independent container/bitstream-header validator and decoded by two independent decoders whose output must equal the package's. Explores thousands of option combinations per run; cannot reach the 512 KiB partition-0 limit or 16383x16383 pictures.",
   note="Trusts libwebp 1.2.4 and x/image as reference decoders (disagreement between them = inconclusive), the /verif RIFF walker and VP8 header reader written from the specifications."),
 "C07": dict(design_ref="DESIGN.md section 7 C07", technique="property-based round trip on the alpha plane + libwebp differential",
   text="Generated pictures with every alpha pattern x alpha options; decoded alpha compared with the source exactly (AlphaQuality 100) or against the documented quantisation contract. Random search, no proof of absence.",
   note="Trusts libwebp's alpha decoding as witness; documented level mapping taken from the package's own comment."),
 "C15": dict(design_ref="DESIGN.md section 7 C15", technique="property-based metamorphic test (with vs without metadata) + read-back through three readers",
   text="Generated blobs and subsets over still and animated outputs; byte-exact storage, flag/chunk agreement and picture invariance are checked on every case; the 100 MB cap is probed in the thorough tier.",
   note="Trusts the /verif RIFF walker for locating chunks; pool state normalised before compared encodes."),
 "C19": dict(design_ref="DESIGN.md section 7 C19", technique="property-based metamorphic test (equivalent storage layouts => identical bytes)",
   text="For each generated picture several equivalent in-memory presentations must give byte-identical output and leave the caller's buffer untouched; covers the NRGBA/RGBA fast paths, the generic At() path, alpha scan, cleanup, sharp-YUV and lossless import.",
   note="Semi-transparent premultiplied sources are outside the property's domain. Pool state normalised before compared encodes."),
 "C20": dict(design_ref="DESIGN.md section 7 C20", technique="property-based boundary-value testing against the documented option contract",
   text="Boundary and out-of-range values for every option field, sentinel equivalences, lossy-only options under lossless, nil arguments and boundary image sizes; each case is judged against the documented contract (error vs valid file, byte equality with the documented default).",
   note="The 'documented contract' is my transcription of the EncoderOptions field comments (function documentedValid); pool state normalised before compared encodes."),
}
