#!/bin/bash
# ./run_all.sh <tier> [seed...]  - runs every registered check; prints one line per check (development aid)
cd "$(dirname "$0")"
tier=${1:-quick}; shift
seeds=${@:-1}
for s in $seeds; do
  for id in $(python3 -c "import json;print(' '.join(c['property_id'] for c in json.load(open('MANIFEST.json'))['checks']))"); do
    out=$(VERIF_SEED=$s ./check $id $tier 2>&1); rc=$?
    echo "seed=$s $id rc=$rc $(echo "$out" | grep -a '^check ' | tail -1 | cut -d' ' -f3-)"
    echo "$out" | grep -a "VIOLATION\|KNOWN-FINDING\|^note:" | head -5
  done
done
